"""./vcheck <id> [--tier quick|thorough] [--replay path]"""
import argparse
import importlib
import os
import sys

from . import run


def main():
    ap = argparse.ArgumentParser()
    ap.add_argument("prop")
    ap.add_argument("--tier", default=os.environ.get("VERIF_TIER") or "quick", choices=["quick", "thorough"])
    ap.add_argument("--replay")
    ap.add_argument("--only", help="substring filter on obligation names (debugging; evidence still written)")
    ap.add_argument("--jobs", type=int)
    a = ap.parse_args()
    tier = os.environ.get("VERIF_TIER") or a.tier
    if tier not in ("quick", "thorough"):
        tier = a.tier
    mod = importlib.import_module(f"checks.{a.prop.lower()}")
    if hasattr(mod, "main"):
        sys.exit(mod.main(tier, a))
    obs = mod.obligations(tier)
    if a.only:
        obs = [o for o in obs if a.only in o.name]
    if a.replay:
        sys.exit(run.run_replay(mod.PROP, a.replay, mod.obligations("thorough") + mod.obligations("quick")))
    from . import selftest

    if not selftest.run(quiet=True):
        print("INCONCLUSIVE: symx self-test (value models vs CPython) failed")
        sys.exit(run.EXIT_INCONCLUSIVE)
    sys.exit(run.run_check(mod.PROP, tier, obs, encoded_funcs=mod.encoded(), jobs=a.jobs, **mod.META))


if __name__ == "__main__":
    main()
