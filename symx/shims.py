"""Shims for C-level libraries that cannot take proxies (math, numpy subset).

Every shim is part of the trusted base and is listed in evidence files by
the harnesses that install it.
"""
from __future__ import annotations

import contextlib
import math as _math

import z3

from . import core
from .core import SymInt, SymReal, is_sym, to_real_term


def sym_sqrt(x):
    """sqrt(t): fresh r with r >= 0 and r*r == t (memoised per term)."""
    if not is_sym(x):
        return _math.sqrt(x)
    eng = core.cur()
    t = z3.simplify(to_real_term(x))
    key = ("sqrt", t.get_id())
    if key in eng.memo:
        return eng.memo[key][1]
    if eng.branch(t < 0):
        raise ValueError("math domain error")
    r = eng.fresh_real("sqrt")
    eng.solver.add(r.t >= 0, r.t * r.t == t)
    eng.memo[key] = (t, r)
    return r


def sym_cos_sin(x):
    """(C, S) with C^2+S^2 = 1, memoised per argument term.  Nothing else is
    assumed about the angle, so results proved with it hold for every angle."""
    eng = core.cur()
    t = z3.simplify(to_real_term(x))
    key = ("cs", t.get_id())
    if key in eng.memo:
        return eng.memo[key][1]
    c = eng.fresh_real("cos")
    s = eng.fresh_real("sin")
    eng.solver.add(c.t * c.t + s.t * s.t == 1)
    eng.memo[key] = (t, (c, s))
    return c, s


class MathShim:
    """Stand-in for the ``math`` module inside a module under test."""

    pi = _math.pi
    e = _math.e
    inf = _math.inf

    def __getattr__(self, name):
        real = getattr(_math, name)

        def f(*a):
            if any(is_sym(v) for v in a):
                raise core.Inconclusive(f"math.{name} on a symbolic value is not modelled")
            return real(*a)

        return f

    @staticmethod
    def sqrt(x):
        return sym_sqrt(x)

    @staticmethod
    def cos(x):
        if not is_sym(x):
            return _math.cos(x)
        return sym_cos_sin(x)[0]

    @staticmethod
    def sin(x):
        if not is_sym(x):
            return _math.sin(x)
        return sym_cos_sin(x)[1]

    @staticmethod
    def fabs(x):
        return abs(x) if is_sym(x) else _math.fabs(x)

    @staticmethod
    def floor(x):
        return core.sym_floor(x) if is_sym(x) else _math.floor(x)

    @staticmethod
    def isclose(a, b, *, rel_tol=1e-09, abs_tol=0.0):
        if not (is_sym(a) or is_sym(b)):
            return _math.isclose(a, b, rel_tol=rel_tol, abs_tol=abs_tol)
        d = abs(a - b)
        m = core.sym_max([abs(a), abs(b)])
        return bool(d <= core.sym_max([rel_tol * m, abs_tol]))

    @staticmethod
    def copysign(x, y):
        if not (is_sym(x) or is_sym(y)):
            return _math.copysign(x, y)
        mag = abs(x)
        return mag if bool(y >= 0) else -mag

    @staticmethod
    def fmod(x, y):
        if not (is_sym(x) or is_sym(y)):
            return _math.fmod(x, y)
        if is_sym(y):
            raise core.Inconclusive("math.fmod with a symbolic modulus")
        q = core.sym_trunc(x / y)
        return x - q * y

    @staticmethod
    def ceil(x):
        if not is_sym(x):
            return _math.ceil(x)
        return -core.sym_floor(-x)

    @staticmethod
    def pow(x, y):
        if is_sym(x):
            return x ** (int(y) if float(y).is_integer() else y)
        return _math.pow(x, y)

    @staticmethod
    def radians(x):
        if is_sym(x):
            return x * (_math.pi / 180.0)
        return _math.radians(x)

    @staticmethod
    def degrees(x):
        if is_sym(x):
            return x * (180.0 / _math.pi)
        return _math.degrees(x)


MATH = MathShim()


@contextlib.contextmanager
def patched(*assignments):
    """patched((module, 'name', value), ...): assign into module namespaces and
    restore afterwards.  A missing attribute is restored by deletion."""
    _missing = object()
    saved = []
    try:
        for mod, name, val in assignments:
            old = mod.__dict__.get(name, _missing) if hasattr(mod, "__dict__") else getattr(mod, name, _missing)
            saved.append((mod, name, old))
            setattr(mod, name, val)
        yield
    finally:
        for mod, name, old in reversed(saved):
            if old is _missing:
                try:
                    delattr(mod, name)
                except AttributeError:
                    pass
            else:
                setattr(mod, name, old)


def builtin_shims(mod, names=("int", "float", "round", "abs", "min", "max")):
    """Assignment triples shadowing builtins in *mod*'s global namespace."""
    table = {
        "int": core.sym_int_t,
        "float": core.sym_float_t,
        "round": core.sym_round_shim,
        "abs": core.sym_abs,
        "min": core.sym_min,
        "max": core.sym_max,
    }
    return [(mod, n, table[n]) for n in names]


class AssocMap:
    """dict stand-in whose keys may be tuples of symbolic ints.

    Key equality is decided by the solver (forks when undetermined); a real
    dict would hash proxies by identity and be silently wrong.
    """

    def __init__(self):
        self.items_ = []

    @staticmethod
    def _eq(a, b):
        if isinstance(a, tuple) and isinstance(b, tuple):
            if len(a) != len(b):
                return False
            return bool(core.And(*[core.same(x, y) for x, y in zip(a, b)]))
        return bool(a == b)

    def _find(self, key):
        for i, (k, _v) in enumerate(self.items_):
            if self._eq(k, key):
                return i
        return -1

    def __getitem__(self, key):
        i = self._find(key)
        if i < 0:
            raise KeyError(key)
        return self.items_[i][1]

    def __setitem__(self, key, val):
        i = self._find(key)
        if i < 0:
            self.items_.append((key, val))
        else:
            self.items_[i] = (key, val)

    def __contains__(self, key):
        return self._find(key) >= 0

    def __len__(self):
        return len(self.items_)

    def keys(self):
        return [k for k, _ in self.items_]

    def values(self):
        return [v for _, v in self.items_]

    def items(self):
        return list(self.items_)

    def get(self, key, default=None):
        i = self._find(key)
        return default if i < 0 else self.items_[i][1]

    def setdefault(self, key, default=None):
        i = self._find(key)
        if i < 0:
            self.items_.append((key, default))
            return default
        return self.items_[i][1]

    def __delitem__(self, key):
        i = self._find(key)
        if i < 0:
            raise KeyError(key)
        del self.items_[i]

    def pop(self, key, *default):
        i = self._find(key)
        if i < 0:
            if default:
                return default[0]
            raise KeyError(key)
        return self.items_.pop(i)[1]

    def clear(self):
        self.items_ = []

    def __iter__(self):
        return iter(self.keys())


# --------------------------------------------------------------------------
# numpy subset used by pdb2pqr.utilities / quatfit, on lists of proxies
# --------------------------------------------------------------------------


class Vec(list):
    """1-D array stand-in with elementwise arithmetic (exact, list-based)."""

    def _bin(self, o, f):
        if isinstance(o, (list, tuple)):
            if len(o) != len(self):
                raise ValueError("operands could not be broadcast together")
            return Vec(f(a, b) for a, b in zip(self, o))
        return Vec(f(a, o) for a in self)

    def __add__(self, o):
        return self._bin(o, lambda a, b: a + b)

    __radd__ = __add__

    def __sub__(self, o):
        return self._bin(o, lambda a, b: a - b)

    def __rsub__(self, o):
        return self._bin(o, lambda a, b: b - a)

    def __mul__(self, o):
        return self._bin(o, lambda a, b: a * b)

    __rmul__ = __mul__

    def __truediv__(self, o):
        return self._bin(o, lambda a, b: a / b)

    def __neg__(self):
        return Vec(-a for a in self)

    def __iadd__(self, o):
        return self.__add__(o)

    def __isub__(self, o):
        return self.__sub__(o)

    def tolist(self):
        return list(self)


class _LinAlg:
    @staticmethod
    def norm(v):
        s = 0
        for a in v:
            s = s + a * a
        return sym_sqrt(s) if is_sym(s) else _math.sqrt(s)


class NumpyShim:
    """Stand-in for ``np`` in a module namespace; anything not modelled falls
    through to real numpy and fails loudly on proxies (-> inconclusive)."""

    pi = _math.pi
    linalg = _LinAlg()

    def __getattr__(self, name):
        import numpy

        real = getattr(numpy, name)
        if not callable(real):
            return real

        def f(*a, **k):
            flat = []
            for v in a:
                flat.extend(v if isinstance(v, (list, tuple)) else [v])
            if any(is_sym(v) for v in flat):
                raise core.Inconclusive(f"numpy.{name} on symbolic values is not modelled")
            return real(*a, **k)

        return f

    @staticmethod
    def array(v, *a, **k):
        if isinstance(v, Vec):
            return Vec(v)
        if isinstance(v, (list, tuple)) and v and isinstance(v[0], (list, tuple)):
            return [Vec(r) for r in v]
        return Vec(v)

    @staticmethod
    def cross(a, b):
        return Vec([a[1] * b[2] - a[2] * b[1], a[2] * b[0] - a[0] * b[2], a[0] * b[1] - a[1] * b[0]])

    @staticmethod
    def inner(a, b):
        s = 0
        for x, y in zip(a, b):
            s = s + x * y
        return s

    dot = inner

    @staticmethod
    def absolute(x):
        return abs(x)

    @staticmethod
    def subtract(a, b):
        return Vec(a) - b

    @staticmethod
    def add(a, b):
        return Vec(a) + b


NP = NumpyShim()
