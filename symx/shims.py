"""Shims for C-level libraries that cannot take proxies (math, numpy subset).

Every shim is part of the trusted base and is listed in evidence files by
the harnesses that install it.
"""
from __future__ import annotations

import contextlib
import math as _math

import z3

from . import core
from .core import SymInt, SymReal, is_sym, to_real_term


def sym_sqrt(x):
    """sqrt(t): fresh r with r >= 0 and r*r == t (memoised per term)."""
    if not is_sym(x):
        return _math.sqrt(x)
    eng = core.cur()
    t = z3.simplify(to_real_term(x))
    key = ("sqrt", t.get_id())
    if key in eng.memo:
        return eng.memo[key][1]
    if eng.branch(t < 0):
        raise ValueError("math domain error")
    r = eng.fresh_real("sqrt")
    eng.solver.add(r.t >= 0, r.t * r.t == t)
    eng.memo[key] = (t, r)
    return r


def sym_cos_sin(x):
    """(C, S) with C^2+S^2 = 1, memoised per argument term.  Nothing else is
    assumed about the angle, so results proved with it hold for every angle."""
    eng = core.cur()
    t = z3.simplify(to_real_term(x))
    key = ("cs", t.get_id())
    if key in eng.memo:
        return eng.memo[key][1]
    c = eng.fresh_real("cos")
    s = eng.fresh_real("sin")
    eng.solver.add(c.t * c.t + s.t * s.t == 1)
    eng.memo[key] = (t, (c, s))
    return c, s


class MathShim:
    """Stand-in for the ``math`` module inside a module under test."""

    pi = _math.pi
    e = _math.e
    inf = _math.inf

    def __getattr__(self, name):
        real = getattr(_math, name)

        def f(*a):
            if any(is_sym(v) for v in a):
                raise core.Inconclusive(f"math.{name} on a symbolic value is not modelled")
            return real(*a)

        return f

    @staticmethod
    def sqrt(x):
        return sym_sqrt(x)

    @staticmethod
    def cos(x):
        if not is_sym(x):
            return _math.cos(x)
        return sym_cos_sin(x)[0]

    @staticmethod
    def sin(x):
        if not is_sym(x):
            return _math.sin(x)
        return sym_cos_sin(x)[1]

    @staticmethod
    def fabs(x):
        return abs(x) if is_sym(x) else _math.fabs(x)

    @staticmethod
    def floor(x):
        return core.sym_floor(x) if is_sym(x) else _math.floor(x)

    @staticmethod
    def ceil(x):
        if not is_sym(x):
            return _math.ceil(x)
        return -core.sym_floor(-x)

    @staticmethod
    def pow(x, y):
        if is_sym(x):
            return x ** (int(y) if float(y).is_integer() else y)
        return _math.pow(x, y)

    @staticmethod
    def radians(x):
        if is_sym(x):
            return x * (_math.pi / 180.0)
        return _math.radians(x)

    @staticmethod
    def degrees(x):
        if is_sym(x):
            return x * (180.0 / _math.pi)
        return _math.degrees(x)


MATH = MathShim()


@contextlib.contextmanager
def patched(*assignments):
    """patched((module, 'name', value), ...): assign into module namespaces and
    restore afterwards.  A missing attribute is restored by deletion."""
    _missing = object()
    saved = []
    try:
        for mod, name, val in assignments:
            old = mod.__dict__.get(name, _missing) if hasattr(mod, "__dict__") else getattr(mod, name, _missing)
            saved.append((mod, name, old))
            setattr(mod, name, val)
        yield
    finally:
        for mod, name, old in reversed(saved):
            if old is _missing:
                try:
                    delattr(mod, name)
                except AttributeError:
                    pass
            else:
                setattr(mod, name, old)


def builtin_shims(mod, names=("int", "float", "round", "abs", "min", "max")):
    """Assignment triples shadowing builtins in *mod*'s global namespace."""
    table = {
        "int": core.sym_int_t,
        "float": core.sym_float_t,
        "round": core.sym_round_shim,
        "abs": core.sym_abs,
        "min": core.sym_min,
        "max": core.sym_max,
    }
    return [(mod, n, table[n]) for n in names]


class AssocMap:
    """dict stand-in whose keys may be tuples of symbolic ints.

    Key equality is decided by the solver (forks when undetermined); a real
    dict would hash proxies by identity and be silently wrong.
    """

    def __init__(self):
        self.items_ = []

    @staticmethod
    def _eq(a, b):
        if isinstance(a, tuple) and isinstance(b, tuple):
            if len(a) != len(b):
                return False
            return bool(core.And(*[core.same(x, y) for x, y in zip(a, b)]))
        return bool(a == b)

    def _find(self, key):
        for i, (k, _v) in enumerate(self.items_):
            if self._eq(k, key):
                return i
        return -1

    def __getitem__(self, key):
        i = self._find(key)
        if i < 0:
            raise KeyError(key)
        return self.items_[i][1]

    def __setitem__(self, key, val):
        i = self._find(key)
        if i < 0:
            self.items_.append((key, val))
        else:
            self.items_[i] = (key, val)

    def __contains__(self, key):
        return self._find(key) >= 0

    def __len__(self):
        return len(self.items_)

    def keys(self):
        return [k for k, _ in self.items_]

    def values(self):
        return [v for _, v in self.items_]

    def items(self):
        return list(self.items_)

    def get(self, key, default=None):
        i = self._find(key)
        return default if i < 0 else self.items_[i][1]
