"""Check runner: obligations -> explore -> replay -> verdict, evidence, exit code.

Exit codes: 0 property held on everything explored (known findings printed as
KNOWN-FINDING lines); 1 new violation that reproduced on the real code
(VIOLATION line printed); 3 inconclusive / harness error (never success).
"""
from __future__ import annotations

import ast
import hashlib
import inspect
import json
import multiprocessing
import os
import sys
import time
import traceback
from fractions import Fraction

from . import core

VERIF = os.path.dirname(os.path.dirname(os.path.abspath(__file__)))
REPO = os.environ.get("PDB2PQR_REPO", "/repo")

EXIT_OK, EXIT_VIOLATION, EXIT_INCONCLUSIVE = 0, 1, 3


# --------------------------------------------------------------------------
# region expressions of known findings
# --------------------------------------------------------------------------


class RegionError(Exception):
    pass


class _Missing:
    """A variable the current harness does not have: every comparison with it
    is False, so a region only applies where its variables exist."""

    def _f(self, o):
        return False

    __lt__ = __le__ = __gt__ = __ge__ = __eq__ = __ne__ = _f
    __hash__ = object.__hash__

    def __bool__(self):
        return False

    def __neg__(self):
        return self


_MISSING = _Missing()


def eval_region(expr, env):
    """Evaluate a region expression (python syntax subset) over *env* whose
    values are proxies, numbers, strings or bools.  Returns SymBool or bool."""
    tree = ast.parse(expr, mode="eval").body

    def ev(n):
        if isinstance(n, ast.BoolOp):
            vals = [ev(v) for v in n.values]
            return core.And(*vals) if isinstance(n.op, ast.And) else core.Or(*vals)
        if isinstance(n, ast.UnaryOp):
            if isinstance(n.op, ast.Not):
                return core.Not(ev(n.operand))
            if isinstance(n.op, ast.USub):
                return -ev(n.operand)
        if isinstance(n, ast.Compare):
            left = ev(n.left)
            out = []
            for op, rn in zip(n.ops, n.comparators):
                right = ev(rn)
                if left is _MISSING or right is _MISSING:
                    r = False
                elif isinstance(op, ast.In):
                    r = core.Or(*[core.same(left, x) for x in right]) if right else False
                elif isinstance(op, ast.NotIn):
                    r = core.Not(core.Or(*[core.same(left, x) for x in right])) if right else True
                elif isinstance(op, ast.Eq):
                    r = core.same(left, right)
                elif isinstance(op, ast.NotEq):
                    r = core.Not(core.same(left, right))
                elif isinstance(op, ast.Lt):
                    r = left < right
                elif isinstance(op, ast.LtE):
                    r = left <= right
                elif isinstance(op, ast.Gt):
                    r = left > right
                elif isinstance(op, ast.GtE):
                    r = left >= right
                else:
                    raise RegionError(f"operator {op}")
                out.append(r)
                left = right
            return core.And(*out)
        if isinstance(n, ast.Name):
            if n.id in ("True", "False"):
                return n.id == "True"
            if n.id not in env:
                return _MISSING
            return env[n.id]
        if isinstance(n, ast.Constant):
            return n.value
        if isinstance(n, (ast.List, ast.Tuple)):
            return [ev(e) for e in n.elts]
        if isinstance(n, ast.BinOp) and isinstance(n.op, (ast.Add, ast.Sub, ast.Mult)):
            a, b = ev(n.left), ev(n.right)
            return a + b if isinstance(n.op, ast.Add) else a - b if isinstance(n.op, ast.Sub) else a * b
        raise RegionError(f"unsupported syntax {ast.dump(n)[:80]}")

    return ev(tree)


def load_known(prop):
    path = os.path.join(VERIF, "known_findings.json")
    if not os.path.exists(path):
        return []
    data = json.load(open(path))
    return [f for f in data["findings"] if f["property"] == prop]


# --------------------------------------------------------------------------
# obligations
# --------------------------------------------------------------------------


class Obligation:
    """One harness instance.

    harness(eng, **case) runs the real code; ``case`` holds the enumerated
    (finite-table) parameters of this instance, ``eng`` the symbolic ones.
    kind: 'symx' (path exploration) | 'lemma' (direct solver query returning
    a Result-like dict) | 'table' (ground facts, exhaustive over finite table).
    """

    def __init__(self, name, harness, case=None, kind="symx", max_paths=20000, time_cap=300, expect_reach=True, group=None):
        self.name = name
        self.harness = harness
        self.case = dict(case or {})
        self.kind = kind
        self.max_paths = max_paths
        self.time_cap = time_cap
        self.expect_reach = expect_reach
        self.group = group or name

    def bound(self, eng):
        return self.harness(eng, **self.case)


def _known_callables(findings, ob):
    out = []
    for f in findings:
        if f.get("status") != "known":
            continue
        if f.get("obligation") and f["obligation"] != ob.group:
            continue
        expr = f["region"]

        def reg(eng, expr=expr):
            env = dict(ob.case)
            env.update(getattr(eng, "vars", {}))
            env.update(getattr(eng, "derived", {}))
            return eval_region(expr, env)

        out.append((f["id"], reg, tuple(f.get("labels") or ())))
    return out


def _region_concrete(f, ob, values):
    env = dict(ob.case)
    env.update(values)
    return bool(eval_region(f["region"], env))


def _jsonable(v):
    if isinstance(v, Fraction):
        return str(v) if v.denominator != 1 else v.numerator
    if isinstance(v, (int, bool, str, float)) or v is None:
        return v
    if isinstance(v, (list, tuple)):
        return [_jsonable(x) for x in v]
    if isinstance(v, dict):
        return {str(k): _jsonable(x) for k, x in v.items()}
    return repr(v)


def _unjson_values(d):
    out = {}
    for k, v in d.items():
        if isinstance(v, str):
            try:
                out[k] = Fraction(v)
                continue
            except ValueError:
                pass
        out[k] = v
    return out


def run_obligation(ob, findings, seed=0):
    """Returns a dict (picklable) with the outcome of one obligation."""
    t0 = time.time()
    out = {
        "name": ob.name,
        "group": ob.group,
        "case": _jsonable(ob.case),
        "kind": ob.kind,
        "violations": [],
        "known": [],
        "known_stale": [],
        "inconclusive": [],
        "stats": None,
        "nontrivial_paths": 0,
    }
    try:
        if ob.kind != "symx":
            r = ob.harness(**ob.case)
            out.update(r)
            # ground (table / lemma) violations: classify against known findings by their concrete case values
            fresh = []
            for v in out["violations"]:
                hit = None
                for f in findings:
                    if f.get("status") != "known" or (f.get("obligation") and f["obligation"] != ob.group):
                        continue
                    env = dict(ob.case)
                    env.update(v.get("values") or {})
                    if bool(eval_region(f["region"], env)):
                        hit = f["id"]
                        break
                if hit:
                    out["known"].append({"id": hit, "label": v["label"], "values": v.get("values"), "reproduced": True})
                else:
                    fresh.append(v)
            out["violations"] = fresh
            out["wall_s"] = time.time() - t0
            return out
        known = _known_callables(findings, ob)
        res = core.explore(lambda e: ob.bound(e), known=known, max_paths=ob.max_paths, time_cap=ob.time_cap, seed=seed)
        out["stats"] = res.stats.as_dict()
        out["samples"] = res.stats.samples
        out["inconclusive"] = list(res.inconclusive)
        if ob.expect_reach and res.stats.checks == 0 and not res.inconclusive:
            out["inconclusive"].append("vacuous: no path reached a property evaluation")
        for v in res.violations:
            rep = _replay(ob, v.values, v.label)
            entry = {"label": v.label, "values": _jsonable(v.values), "note": v.note, "reproduced": rep["reproduced"], "replay_detail": rep["detail"]}
            if rep["reproduced"]:
                out["violations"].append(entry)
            else:
                out["inconclusive"].append(
                    f"model for '{v.label}' did not reproduce on the real code (encoding/shim error?): "
                    f"{json.dumps(_jsonable(v.values))[:400]} :: {rep['detail'][:300]}"
                )
        for kid, v in res.known_hits.items():
            rep = _replay(ob, v.values, v.label)
            entry = {"id": kid, "label": v.label, "values": _jsonable(v.values), "reproduced": rep["reproduced"]}
            (out["known"] if rep["reproduced"] else out["known_stale"]).append(entry)
    except Exception as e:  # noqa: BLE001
        out["inconclusive"].append(f"runner error {type(e).__name__}: {e}\n{traceback.format_exc(limit=6)}")
    out["wall_s"] = time.time() - t0
    return out


CURRENT_PROP = [None]


def _replay(ob, values, label=None):
    """Run the harness body on the concrete values, unshimmed.  The violation
    reproduces only if the SAME labelled property fails concretely.  If it does
    not reproduce in this process (whose module state earlier symbolic paths
    may have touched: caches, module-level containers), the replay is repeated
    once in a fresh interpreter, which is what a user's run looks like."""
    rep = _replay_here(ob, values, label)
    if rep["reproduced"] or os.environ.get("SYMX_FRESH_REPLAY") == "0" or CURRENT_PROP[0] is None or label is None:
        return rep
    import subprocess
    import tempfile

    with tempfile.NamedTemporaryFile("w", suffix=".json", delete=False) as f:
        json.dump({"property": CURRENT_PROP[0], "obligation": ob.name, "case": _jsonable(ob.case), "label": label, "values": _jsonable(values)}, f)
    try:
        env = dict(os.environ, SYMX_FRESH_REPLAY="0")
        r = subprocess.run([sys.executable, "-m", "symx.cli", CURRENT_PROP[0], "--replay", f.name], cwd=VERIF, env=env, capture_output=True, text=True, timeout=600)
        if r.returncode == EXIT_VIOLATION:
            detail = [ln.strip() for ln in r.stdout.splitlines() if ln.startswith("  ")]
            return {"reproduced": True, "detail": ("fresh interpreter: " + (detail[0] if detail else ""))[:500]}
        rep["detail"] += f" [fresh interpreter: {r.stdout.strip()[-200:]}]"
    except Exception as e:  # noqa: BLE001
        rep["detail"] += f" [fresh-interpreter replay failed: {type(e).__name__}]"
    finally:
        os.unlink(f.name)
    return rep


def _replay_here(ob, values, label=None):
    try:
        vs = core.replay(lambda e: ob.bound(e), values)
    except Exception as e:  # noqa: BLE001
        return {"reproduced": False, "detail": f"replay raised {type(e).__name__}: {e}"}
    same = [v for v in vs if label is None or v.label == label]
    if same:
        return {"reproduced": True, "detail": "; ".join(f"{v.label}: {v.note}" for v in same)[:500]}
    if vs:
        return {"reproduced": False, "detail": "other properties failed concretely, not this one: " + ", ".join(sorted({v.label for v in vs}))}
    return {"reproduced": False, "detail": "property held under the concrete values"}


# --------------------------------------------------------------------------
# function census: which pdb2pqr functions ran under symbolic inputs
# --------------------------------------------------------------------------

_SEEN_CODE = set()


def _start_census():
    mon = getattr(sys, "monitoring", None)
    if mon is None:
        return
    tool = 4
    try:
        mon.use_tool_id(tool, "symx-census")
    except ValueError:
        return
    prefix = os.path.join(REPO, "pdb2pqr")

    def on_start(code, _off):
        if code.co_filename.startswith(prefix):
            _SEEN_CODE.add(code)
        return mon.DISABLE

    mon.register_callback(tool, mon.events.PY_START, on_start)
    mon.set_events(tool, mon.events.PY_START)


def _census():
    out = {}
    for code in _SEEN_CODE:
        q = getattr(code, "co_qualname", code.co_name)
        if q.startswith("<"):
            continue
        rel = os.path.relpath(code.co_filename, REPO)
        out[f"{rel}:{q}"] = code.co_firstlineno
    return out


def source_digest(funcs):
    out = []
    for f in funcs:
        try:
            src = inspect.getsource(f)
            mod = inspect.getmodule(f).__name__
            out.append({"function": f"{mod}.{f.__qualname__}", "sha256": hashlib.sha256(src.encode()).hexdigest()[:16]})
        except (OSError, TypeError, AttributeError):
            out.append({"function": repr(f), "sha256": None})
    return out


# --------------------------------------------------------------------------
# driver
# --------------------------------------------------------------------------

_OBS = None
_FINDINGS = None
_SEED = 0


def _worker(i):
    _SEEN_CODE.clear()
    r = run_obligation(_OBS[i], _FINDINGS, _SEED)
    r["census"] = _census()
    return r


def run_check(prop, tier, obligations, encoded_funcs=(), stubs=(), bounds=(), outside=(), explanation="", assumptions=(), jobs=None, technique=""):
    global _OBS, _FINDINGS, _SEED
    t0 = time.time()
    seed = int(os.environ.get("VERIF_SEED", "0") or 0)
    findings = load_known(prop)
    _OBS, _FINDINGS, _SEED = obligations, findings, seed
    CURRENT_PROP[0] = prop
    if seed:
        import random

        random.Random(seed).shuffle(obligations)
    _start_census()
    jobs = jobs or int(os.environ.get("VERIF_JOBS", "0") or 0) or (1 if tier == "quick" and len(obligations) < 4 else min(16, os.cpu_count() or 1))
    results = []
    if jobs > 1 and len(obligations) > 1:
        ctx = multiprocessing.get_context("fork")
        with ctx.Pool(min(jobs, len(obligations))) as pool:
            for r in pool.imap_unordered(_worker, range(len(obligations)), chunksize=1):
                results.append(r)
    else:
        for i in range(len(obligations)):
            results.append(_worker(i))
    results.sort(key=lambda r: r["name"])

    # ---- verdict ---------------------------------------------------------
    violations, known_hits, stale, inconc = [], {}, {}, []
    for r in results:
        for v in r["violations"]:
            violations.append((r, v))
        for k in r["known"]:
            known_hits.setdefault(k["id"], (r, k))
        for k in r["known_stale"]:
            stale.setdefault(k["id"], (r, k))
        for m in r["inconclusive"]:
            inconc.append(f"[{r['name']}] {m}")

    os.makedirs(os.path.join(VERIF, "evidence"), exist_ok=True)
    os.makedirs(os.path.join(VERIF, "replays"), exist_ok=True)
    fmap = {f["id"]: f for f in findings}
    for kid, (r, k) in sorted(known_hits.items()):
        print(f"KNOWN-FINDING: property={prop} {kid}: {fmap[kid]['what']} [witness {r['name']} {json.dumps(k['values'])[:200]}]")
    for f in findings:
        if f.get("status") == "known" and f["id"] not in known_hits:
            why = "model did not reproduce" if f["id"] in stale else "no violation found inside its region"
            print(f"note: known finding {f['id']} was not re-confirmed by this run ({why}; tier={tier})")
    exit_code = EXIT_OK
    replay_paths = []
    shown = set()
    for n, (r, v) in enumerate(violations):
        if (r["name"]) in shown or len(shown) >= int(os.environ.get("VERIF_MAXSHOW", "12")):
            continue  # one line per obligation, at most 12 (all are counted in the evidence file)
        shown.add(r["name"])
        path = os.path.join(VERIF, "replays", f"{prop}-{n}.json")
        json.dump({"property": prop, "obligation": r["name"], "case": r["case"], "label": v["label"], "values": v["values"], "detail": v["replay_detail"]}, open(path, "w"), indent=1)
        replay_paths.append(path)
        print(f"VIOLATION property={prop} replay={path}")
        print(f"  obligation={r['name']} label={v['label']} values={json.dumps(v['values'])[:300]}")
        print(f"  {v['replay_detail'][:300]}")
        exit_code = EXIT_VIOLATION
    if inconc:
        for m in inconc[:20]:
            print("INCONCLUSIVE:", m[:1500])
        if exit_code == EXIT_OK:
            exit_code = EXIT_INCONCLUSIVE

    # ---- evidence --------------------------------------------------------
    tot = core.Stats()
    nontrivial = 0
    lemma_q = {"sat": 0, "unsat": 0, "unknown": 0}
    table_rows = 0
    census = {}
    samples = []
    per_ob = []
    for r in results:
        census.update(r.get("census", {}))
        st = r.get("stats")
        if st:
            tot.paths += st["paths"]
            tot.infeasible_paths += st["infeasible_paths"]
            tot.checks += st["property_evaluations"]
            for k in tot.queries:
                tot.queries[k] += st["queries"].get(k, 0)
            tot.solver_s += st["solver_s"]
            tot.max_depth = max(tot.max_depth, st["max_decision_depth"])
            nontrivial += st["paths"]
        for k in lemma_q:
            lemma_q[k] += r.get("lemma_queries", {}).get(k, 0)
        tot.solver_s += r.get("lemma_solver_s", 0.0)
        table_rows += r.get("table_rows", 0)
        nontrivial += r.get("distinct", 0)
        for s in (r.get("samples") or [])[:2]:
            if len(samples) < 8:
                samples.append({"obligation": r["name"], "case": r["case"], "sample": s})
        per_ob.append({"name": r["name"], "kind": r["kind"], "wall_s": round(r.get("wall_s", 0), 2), "paths": (st or {}).get("paths"), "queries": (st or {}).get("queries") or r.get("lemma_queries"), "table_rows": r.get("table_rows")})
    if not samples:
        samples = [{"note": "no sample recorded"}]
    queries_total = {k: tot.queries[k] + lemma_q[k] for k in lemma_q}
    ev = {
        "property_id": prop,
        "tier": tier,
        "seed": seed,
        "level": "other",
        "coverage": {
            "explanation": explanation
            or "bounded symbolic execution of the real pdb2pqr functions on z3-backed proxy values; one solver verdict per path and property (unsat of the negation = holds for every value of the symbolic inputs on that path)",
            "technique": technique,
            "evaluations": tot.checks + sum(lemma_q.values()) + table_rows,
            "distinct_nontrivial": nontrivial,
            "rule": "one evaluation = one property instance handed to the solver (a path of a symbolic-execution obligation, a lemma query, or a ground table row); distinct = distinct (obligation, decision string) pairs / distinct lemma queries / distinct table rows, counted by the engine; trivial paths (infeasible) are excluded",
            "samples": samples,
            "obligations": len(results),
            "discharged": sum(1 for r in results if not r["violations"] and not r["inconclusive"]),
            "paths": tot.paths,
            "infeasible_paths_pruned": tot.infeasible_paths,
            "solver_queries": queries_total,
            "solver_s": round(tot.solver_s, 2),
            "max_decision_depth": tot.max_depth,
            "table_rows": table_rows,
            "functions_encoded": source_digest(encoded_funcs),
            "functions_executed_under_symbolic_inputs": sorted(census),
            "stubs_and_shims": list(stubs),
            "bounds": list(bounds),
            "outside_the_claim": list(outside),
            "known_findings_confirmed": sorted(known_hits),
            "known_findings_not_reconfirmed": sorted(f["id"] for f in findings if f.get("status") == "known" and f["id"] not in known_hits),
            "inconclusive": inconc[:20],
            "per_obligation": per_ob[:400],
            "trusted_base": [
                "z3 " + __import__("z3").get_version_string(),
                "symx value models (validated against CPython in symx.selftest on each run)",
                "CPython " + sys.version.split()[0],
            ],
            "exhaustive": False,
        },
        "assumptions": list(assumptions),
        "wall_s": round(time.time() - t0, 2),
        "violations": len(violations),
    }
    json.dump(ev, open(os.path.join(VERIF, "evidence", f"{prop}.json"), "w"), indent=1)
    status = {0: "HOLDS", 1: "VIOLATION", 3: "INCONCLUSIVE"}[exit_code]
    print(
        f"{prop} {tier}: {status} — {len(results)} obligations, {tot.paths} paths, queries {queries_total}, "
        f"solver {tot.solver_s:.1f}s, wall {time.time() - t0:.1f}s, known findings confirmed: {sorted(known_hits)}"
    )
    return exit_code


def run_replay(prop, path, obligations):
    data = json.load(open(path))
    for ob in obligations:
        if ob.name == data["obligation"] and ob.kind != "symx":
            # lemma / table obligations are deterministic: re-run and look for the same label
            r = ob.harness(**ob.case)
            same = [v for v in r.get("violations", []) if v["label"] == data["label"]]
            if same:
                print(f"VIOLATION property={prop} replay={path}")
                print("  " + str(same[0].get("replay_detail", ""))[:400])
                return EXIT_VIOLATION
            print("replay did not reproduce")
            return EXIT_OK
        if ob.name == data["obligation"]:
            if "case" in data and json.loads(json.dumps(_jsonable(ob.case))) != data["case"]:
                continue
            vals = _unjson_values(data["values"])
            rep = _replay_here(ob, vals, data.get("label"))
            if rep["reproduced"]:
                print(f"VIOLATION property={prop} replay={path}")
                print("  " + rep["detail"])
                return EXIT_VIOLATION
            print(f"replay did not reproduce: {rep['detail']}")
            return EXIT_OK
    print(f"obligation {data['obligation']} not found")
    return EXIT_INCONCLUSIVE
