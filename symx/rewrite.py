"""Recompile a function from its *current* source with f-strings and
``str.join`` calls routed through the layout-string model.

Multi-part f-strings compile to BUILD_STRING, which concatenates the raw
buffers of str subclasses at C level and so bypasses ``SymStr``.  The rewrite
is mechanical (JoinedStr -> ``__symx_fstring__(...)``, FormattedValue ->
``__symx_fmt__(value, conv, spec)``, ``X.join(Y)`` -> ``__symx_join__(X, Y)``,
``a in b`` / ``a not in b`` -> ``__symx_in__(a, b)`` so that a layout string tested against a plain
``str`` container is a substring test in the model instead of a C-level scan of the poison buffer),
performed at check time on whatever source is in /repo now; nothing else in the
function changes and the result is never written to disk.
"""
from __future__ import annotations

import ast
import inspect
import textwrap

from . import strs


class _T(ast.NodeTransformer):
    def visit_JoinedStr(self, node):
        parts = []
        for v in node.values:
            if isinstance(v, ast.Constant):
                parts.append(v)
            else:
                parts.append(self._fv(v))
        return ast.copy_location(ast.Call(func=ast.Name(id="__symx_fstring__", ctx=ast.Load()), args=parts, keywords=[]), node)

    def _fv(self, v):
        value = self.visit(v.value)
        conv = {-1: "", 115: "s", 114: "r", 97: "a"}[v.conversion]
        if v.format_spec is None:
            spec = ast.Constant(value="")
        else:
            spec = self.visit_JoinedStr(v.format_spec)
        return ast.copy_location(ast.Call(func=ast.Name(id="__symx_fmt__", ctx=ast.Load()), args=[value, ast.Constant(value=conv), spec], keywords=[]), v)

    def visit_Call(self, node):
        self.generic_visit(node)
        if isinstance(node.func, ast.Attribute) and node.func.attr == "join" and len(node.args) == 1 and not node.keywords:
            return ast.copy_location(ast.Call(func=ast.Name(id="__symx_join__", ctx=ast.Load()), args=[node.func.value, node.args[0]], keywords=[]), node)
        return node


    def visit_Compare(self, node):
        self.generic_visit(node)
        if len(node.ops) == 1 and isinstance(node.ops[0], (ast.In, ast.NotIn)):
            call = ast.Call(func=ast.Name(id="__symx_in__", ctx=ast.Load()), args=[node.left, node.comparators[0]], keywords=[])
            if isinstance(node.ops[0], ast.NotIn):
                call = ast.UnaryOp(op=ast.Not(), operand=call)
            return ast.copy_location(call, node)
        return node


def _in(item, container):
    if isinstance(item, strs.SymStr) and type(container) is str:
        return strs.wrap(container).__contains__(item)
    return item in container


def _join(sep, items):
    if isinstance(sep, str):
        return strs.join(sep, items)
    return sep.join(items)


def rewritten(func):
    """Return a new function object compiled from func's current source with
    the rewrite applied; shares func's globals (module namespace)."""
    f = inspect.unwrap(func)
    if isinstance(f, (classmethod, staticmethod)):
        f = f.__func__
    src = textwrap.dedent(inspect.getsource(f))
    tree = ast.parse(src)
    fdef = tree.body[0]
    assert isinstance(fdef, (ast.FunctionDef,)), type(fdef)
    fdef.decorator_list = []
    tree = _T().visit(tree)
    ast.fix_missing_locations(tree)
    ast.increment_lineno(tree, f.__code__.co_firstlineno - 1)
    g = f.__globals__
    g["__symx_fstring__"] = strs.fstring
    g["__symx_fmt__"] = strs.fmt
    g["__symx_join__"] = _join
    g["__symx_in__"] = _in
    ns = {}
    exec(compile(tree, f.__code__.co_filename, "exec"), g, ns)
    new = ns[fdef.name]
    new.__qualname__ = f.__qualname__
    new.__module__ = f.__module__
    return new


def method_patches(cls, *names):
    """patch triples replacing cls.<name> by its rewritten version, keeping
    classmethod/staticmethod/property wrappers."""
    out = []
    for name in names:
        raw = cls.__dict__[name]
        if isinstance(raw, classmethod):
            out.append((cls, name, classmethod(rewritten(raw.__func__))))
        elif isinstance(raw, staticmethod):
            out.append((cls, name, staticmethod(rewritten(raw.__func__))))
        elif isinstance(raw, property):
            out.append((cls, name, property(rewritten(raw.fget), raw.fset, raw.fdel)))
        else:
            out.append((cls, name, rewritten(raw)))
    return out


def function_patches(mod, *names):
    return [(mod, n, rewritten(getattr(mod, n))) for n in names]
