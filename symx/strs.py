"""Layout strings: str subclass whose characters are *cells*.

A cell is a concrete character, a digit of the rendering of a symbolic number
(``D``), a symbolic character of a name (``C``) or an opaque numeric token
(``T``).  Rendering a number forks on sign and digit count, after which the
layout (length, columns, token boundaries) is concrete and only digit values
stay symbolic.  All structural string operations are evaluated on the cell
list; C-level routines that bypass the model see the poison buffer.
"""
from __future__ import annotations

import re
from fractions import Fraction

import z3

from . import core
from .core import Inconclusive, SymBool, SymInt, SymReal, SymStrBase

POISON = "\x00SYM\x00"
ALLOW_HASH = [False]
MAX_INT_DIGITS = 12
_WS = " \t\n\r\x0b\x0c"


class D:
    """digit cell: z3 Int term in 0..9"""

    __slots__ = ("t",)

    def __init__(self, t):
        self.t = t

    def __repr__(self):
        return f"<d {self.t}>"


class C:
    """symbolic character: z3 Int code point, restricted to ``alpha``"""

    __slots__ = ("t", "alpha")

    def __init__(self, t, alpha):
        self.t = t
        self.alpha = alpha

    def __repr__(self):
        return f"<c {self.t}>"


class T:
    """opaque numeric token (a rendering of ``value`` precise enough that
    parsing it back gives ``value`` up to ``tol``); width unknown, no blanks"""

    __slots__ = ("value", "kind", "tol")

    def __init__(self, value, kind="g", tol=0):
        self.value = value
        self.kind = kind
        self.tol = tol

    def __repr__(self):
        return f"<tok {self.value}>"


class OPT:
    """a blank that is present iff ``cond`` holds (padding whose amount depends on
    the width of a rendered value).  Concatenation, join, whitespace split / strip
    keep it symbolic; every other operation decides it by forking (``SymStr.cells``)."""

    __slots__ = ("cond",)

    def __init__(self, cond):
        self.cond = cond

    def __repr__(self):
        return "<opt-blank>"


def _cell_eq(a, b):
    """bool or z3 Bool"""
    if isinstance(a, OPT) or isinstance(b, OPT):
        other = b if isinstance(a, OPT) else a
        if isinstance(other, str) and other != " ":
            return False
        raise Inconclusive("comparison with an undecided optional blank")
    if isinstance(a, str) and isinstance(b, str):
        return a == b
    if isinstance(a, str):
        a, b = b, a
    if isinstance(a, T) or isinstance(b, T):
        if a is b:
            return True
        other = b if isinstance(a, T) else a
        if isinstance(other, str) and other not in "0123456789.+-eEinfaINFA":
            return False  # a rendered number never contains this character
        raise Inconclusive("comparison of an opaque numeric token")
    if isinstance(a, D):
        if isinstance(b, str):
            return a.t == int(b) if b in "0123456789" else False
        if isinstance(b, D):
            return a.t == b.t
        if isinstance(b, C):
            return a.t + 48 == b.t if any(ch.isdigit() for ch in b.alpha) else False
    if isinstance(a, C):
        if isinstance(b, str):
            return a.t == ord(b) if b in a.alpha else False
        if isinstance(b, C):
            return a.t == b.t if (a.alpha & b.alpha) else False
        if isinstance(b, D):
            return _cell_eq(b, a)
    raise Inconclusive(f"cell comparison {a!r} {b!r}")


def _to_sb(x):
    return x if isinstance(x, (bool, SymBool)) else SymBool(x)


def _all(conds):
    cs = []
    for c in conds:
        if c is False:
            return False
        if c is True:
            continue
        cs.append(c)
    if not cs:
        return True
    return SymBool(z3.And(cs) if len(cs) > 1 else cs[0])


def _cell_in(cell, chars):
    """does the cell belong to the concrete character set? bool or SymBool"""
    if isinstance(cell, str):
        return cell in chars
    if isinstance(cell, T):
        return False if not any(ch in "0123456789.+-eE" for ch in chars) else _raise("strip/in on opaque token")
    opts = []
    for ch in chars:
        e = _cell_eq(cell, ch)
        if e is True:
            return True
        if e is not False:
            opts.append(e)
    if not opts:
        return False
    return SymBool(z3.Or(opts) if len(opts) > 1 else opts[0])


def _raise(msg):
    raise Inconclusive(msg)


def _is_ws(cell):
    return isinstance(cell, str) and cell in _WS


def cells_of(s, raw=False):
    if isinstance(s, SymStr):
        return list(s._raw if raw else s.cells)
    if isinstance(s, str):
        if POISON in s:
            raise Inconclusive("poisoned buffer re-entered the string model (a C-level routine bypassed it)")
        return list(s)
    raise TypeError(f"expected str, got {type(s).__name__}")


def mk(cells, sticky=False):
    cells = list(cells)
    if not sticky and all(isinstance(c, str) for c in cells):
        return "".join(cells)
    return SymStr(cells, sticky)


def wrap(text):
    """A sticky layout string with concrete content (stays in the model, so
    dict keys hash consistently with genuinely symbolic strings)."""
    return SymStr(list(text), True)


class SymStr(str, SymStrBase):
    def __new__(cls, cells, sticky=False):
        self = str.__new__(cls, POISON)
        self._raw = tuple(cells)
        self.sticky = sticky
        return self

    @property
    def cells(self):
        """cells with every optional blank decided (forks once per optional blank)"""
        raw = self._raw
        if any(isinstance(c, OPT) for c in raw):
            out = []
            for c in raw:
                if isinstance(c, OPT):
                    if bool(_to_sb(c.cond)):
                        out.append(" ")
                else:
                    out.append(c)
            raw = self._raw = tuple(out)
        return raw

    # ---- helpers -------------------------------------------------------
    def _mk(self, cells, other=None):
        return mk(cells, self.sticky or bool(getattr(other, "sticky", False)))

    def _has_tok(self):
        return any(isinstance(c, T) for c in self.cells)

    def __len__(self):
        if self._has_tok():
            raise Inconclusive("len() of a string containing an opaque numeric token")
        return len(self.cells)

    def __bool__(self):
        return len(self.cells) > 0

    def __iter__(self):
        for c in self.cells:
            yield self._mk([c])

    def __getitem__(self, i):
        if self._has_tok():
            raise Inconclusive("indexing a string containing an opaque numeric token")
        if isinstance(i, slice):
            return self._mk(self.cells[i])
        if isinstance(i, (SymInt,)):
            raise Inconclusive("symbolic index into a layout string")
        return self._mk([self.cells[i]])

    def __add__(self, o):
        if not isinstance(o, str):
            return NotImplemented
        return self._mk(list(self._raw) + cells_of(o, raw=True), o)

    def __radd__(self, o):
        if not isinstance(o, str):
            return NotImplemented
        return self._mk(cells_of(o, raw=True) + list(self._raw), o)

    def __mul__(self, n):
        return self._mk(list(self._raw) * n)

    __rmul__ = __mul__

    def __mod__(self, o):
        raise Inconclusive("% formatting on a layout string")

    # ---- comparison ----------------------------------------------------
    def _eq(self, o):
        if not isinstance(o, str):
            return False
        oc = cells_of(o)
        if self._has_tok() or any(isinstance(c, T) for c in oc):
            if len(oc) == len(self.cells) and all(a is b or (isinstance(a, str) and a == b) for a, b in zip(self.cells, oc)):
                return True
            # a string that consists of one numeric token can only equal text made of number characters
            if len(self.cells) == 1 and all(isinstance(c, str) for c in oc) and (not oc or any(c not in "0123456789.+-eEinfaINFA" for c in oc)):
                return False
            if len(oc) == 1 and isinstance(oc[0], T) and all(isinstance(c, str) for c in self.cells) and (not self.cells or any(c not in "0123456789.+-eEinfaINFA" for c in self.cells)):
                return False
            raise Inconclusive("equality on opaque numeric token")
        if len(oc) != len(self.cells):
            return False
        return _all(_cell_eq(a, b) for a, b in zip(self.cells, oc))

    def __eq__(self, o):
        return self._eq(o)

    def __ne__(self, o):
        return core.Not(self._eq(o))

    def __hash__(self):
        if not ALLOW_HASH[0]:
            raise Inconclusive("layout string used as a hash key (harness must enable ALLOW_HASH and make all keys layout strings)")
        return 0

    def _cmp_fail(self, o):
        raise Inconclusive("ordering comparison on a layout string")

    __lt__ = __le__ = __gt__ = __ge__ = _cmp_fail

    def __contains__(self, sub):
        return bool(self.find(sub) >= 0)

    def startswith(self, prefix, *a):
        if a:
            raise Inconclusive("startswith with offsets")
        if isinstance(prefix, tuple):
            return any(self.startswith(p) for p in prefix)
        pc = cells_of(prefix)
        if len(pc) > len(self.cells):
            return False
        return bool(_all(_cell_eq(x, y) for x, y in zip(self.cells, pc)))

    def endswith(self, suffix, *a):
        if a:
            raise Inconclusive("endswith with offsets")
        if isinstance(suffix, tuple):
            return any(self.endswith(p) for p in suffix)
        pc = cells_of(suffix)
        if len(pc) > len(self.cells):
            return False
        if not pc:
            return True
        return bool(_all(_cell_eq(x, y) for x, y in zip(self.cells[-len(pc):], pc)))

    def find(self, sub, start=0, end=None):
        pc = cells_of(sub)
        cs = self.cells[start:end]
        n = len(pc)
        for off in range(0, len(cs) - n + 1):
            if bool(_all(_cell_eq(x, y) for x, y in zip(cs[off : off + n], pc))):
                return off + start
        return -1

    def index(self, sub, *a):
        r = self.find(sub, *a)
        if r < 0:
            raise ValueError("substring not found")
        return r

    def count(self, sub):
        pc = cells_of(sub)
        n = len(pc)
        if n == 0:
            return len(self.cells) + 1
        i = cnt = 0
        while i <= len(self.cells) - n:
            if bool(_all(_cell_eq(x, y) for x, y in zip(self.cells[i : i + n], pc))):
                cnt += 1
                i += n
            else:
                i += 1
        return cnt

    # ---- whitespace / padding -----------------------------------------
    def _decide_separating_blanks(self):
        """raw cells with the optional blanks that matter for whitespace tokenisation decided:
        an optional blank next to a certain blank (or at either end) separates nothing by itself
        and is dropped without forking; one that is the only separator between two non-blank
        cells is decided by forking."""
        raw = list(self._raw)
        if not any(isinstance(c, OPT) for c in raw):
            return raw
        out = []
        n = len(raw)
        for i, c in enumerate(raw):
            if not isinstance(c, OPT):
                out.append(c)
                continue
            # nearest certain neighbours (skipping other optional blanks)
            j = i - 1
            while j >= 0 and isinstance(raw[j], OPT):
                j -= 1
            k = i + 1
            while k < n and isinstance(raw[k], OPT):
                k += 1
            left_blank = j < 0 or _is_ws(raw[j])
            right_blank = k >= n or _is_ws(raw[k])
            if left_blank or right_blank:
                continue  # redundant as a separator
            if bool(_to_sb(c.cond)):
                out.append(" ")
        return out

    def _strip(self, chars, left, right):
        # whitespace strip: an optional blank inside the stripped run disappears either way (no fork);
        # interior ones stay symbolic
        cs = list(self._raw) if chars is None else list(self.cells)

        def drop(cell):
            if chars is None:
                return _is_ws(cell) or isinstance(cell, OPT)
            return bool(_to_sb(_cell_in(cell, chars)))

        i, j = 0, len(cs)
        if left:
            while i < j and drop(cs[i]):
                i += 1
        if right:
            while j > i and drop(cs[j - 1]):
                j -= 1
        return self._mk(cs[i:j])

    def strip(self, chars=None):
        return self._strip(chars, True, True)

    def lstrip(self, chars=None):
        return self._strip(chars, True, False)

    def rstrip(self, chars=None):
        return self._strip(chars, False, True)

    def ljust(self, width, fill=" "):
        n = len(self)
        return self._mk(list(self.cells) + [fill] * max(0, width - n))

    def rjust(self, width, fill=" "):
        n = len(self)
        return self._mk([fill] * max(0, width - n) + list(self.cells))

    def center(self, width, fill=" "):
        n = len(self)
        pad = max(0, width - n)
        left = pad // 2 + (pad & width & 1)
        return self._mk([fill] * left + list(self.cells) + [fill] * (pad - left))

    def zfill(self, width):
        cs = list(self.cells)
        sign = []
        if cs and isinstance(cs[0], str) and cs[0] in ("+", "-"):
            sign, cs = cs[:1], cs[1:]
        return self._mk(sign + ["0"] * max(0, width - len(cs) - len(sign)) + cs)

    def split(self, sep=None, maxsplit=-1):
        out = []
        if sep is None:
            cur = []
            cs = self._decide_separating_blanks()
            i = 0
            while i < len(cs):
                c = cs[i]
                if _is_ws(c):
                    if cur:
                        out.append(self._mk(cur))
                        cur = []
                        if maxsplit >= 0 and len(out) >= maxsplit:
                            rest = cs[i:]
                            while rest and _is_ws(rest[0]):
                                rest = rest[1:]
                            if rest:
                                out.append(self._mk(rest))
                            return out
                else:
                    cur.append(c)
                i += 1
            if cur:
                out.append(self._mk(cur))
            return out
        pc = cells_of(sep)
        n = len(pc)
        if n == 0:
            raise ValueError("empty separator")
        # an optional blank can only ever match a blank: a separator without blanks leaves them symbolic
        cs = list(self._raw) if all(isinstance(c, str) and c != " " for c in pc) else list(self.cells)
        cur = []
        i = 0
        while i < len(cs):
            if (maxsplit < 0 or len(out) < maxsplit) and i + n <= len(cs) and bool(_all(_cell_eq(x, y) for x, y in zip(cs[i : i + n], pc))):
                out.append(self._mk(cur))
                cur = []
                i += n
            else:
                cur.append(cs[i])
                i += 1
        out.append(self._mk(cur))
        return out

    def rsplit(self, sep=None, maxsplit=-1):
        if maxsplit < 0:
            return self.split(sep)
        raise Inconclusive("rsplit with maxsplit")

    def splitlines(self, keepends=False):
        out, cur = [], []
        for c in self._raw:
            if isinstance(c, str) and c == "\n":
                out.append(self._mk(cur + (["\n"] if keepends else [])))
                cur = []
            else:
                cur.append(c)
        if cur:
            out.append(self._mk(cur))
        return out

    def replace(self, old, new, count=-1):
        pc = cells_of(old)
        nc = cells_of(new)
        n = len(pc)
        if n == 0:
            raise Inconclusive("replace of empty string")
        cs = list(self.cells)
        out = []
        i = done = 0
        while i < len(cs):
            if (count < 0 or done < count) and i + n <= len(cs) and bool(_all(_cell_eq(x, y) for x, y in zip(cs[i : i + n], pc))):
                out.extend(nc)
                i += n
                done += 1
            else:
                out.append(cs[i])
                i += 1
        return self._mk(out, new)

    def join(self, items):
        out = []
        for k, it in enumerate(items):
            if k:
                out.extend(self._raw)
            out.extend(cells_of(it, raw=True))
        return self._mk(out)

    # ---- character classes --------------------------------------------
    def _allcells(self, pred_concrete, chars):
        if not self.cells:
            return False
        conds = []
        for c in self.cells:
            if isinstance(c, str):
                if not pred_concrete(c):
                    return False
            elif isinstance(c, D):
                if not pred_concrete("0"):
                    return False
            elif isinstance(c, C):
                good = [ch for ch in c.alpha if pred_concrete(ch)]
                if len(good) == len(c.alpha):
                    continue
                if not good:
                    return False
                conds.append(_to_sb(_cell_in(c, "".join(good))))
            elif isinstance(c, T):
                # the rendering of a finite real: contains a digit, and - unless it is a non-negative integer - a sign,
                # point or exponent: never all-alphabetic / all-blank; all-digits / alphanumeric cannot be decided
                if pred_concrete in (str.isalpha, str.isspace) or pred_concrete("0") is False:
                    return False
                raise Inconclusive("character class of opaque token")
            else:
                raise Inconclusive("character class of opaque token")
        return bool(_all([x.t if isinstance(x, SymBool) else x for x in conds]))

    def isdigit(self):
        return self._allcells(str.isdigit, None)

    isdecimal = isnumeric = isdigit

    def isalpha(self):
        return self._allcells(str.isalpha, None)

    def isalnum(self):
        return self._allcells(str.isalnum, None)

    def isspace(self):
        return self._allcells(str.isspace, None)

    def upper(self):
        return self._case(str.upper)

    def lower(self):
        return self._case(str.lower)

    def _case(self, f):
        out = []
        for c in self.cells:
            if isinstance(c, str):
                out.append(f(c))
            elif isinstance(c, C):
                if any(len(f(ch)) != 1 for ch in c.alpha):
                    raise Inconclusive("case mapping that changes the length of a symbolic character")
                if all(f(ch) == ch for ch in c.alpha):
                    out.append(c)
                else:
                    # a new symbolic character: the image of the old one under the (finite) mapping
                    t = c.t
                    for ch in sorted(c.alpha):
                        if f(ch) != ch:
                            t = z3.If(c.t == ord(ch), z3.IntVal(ord(f(ch))), t)
                    out.append(C(t, frozenset(f(ch) for ch in c.alpha)))
            elif isinstance(c, T):
                out.append(c)  # digits, sign, point, 'e'/'E', inf/nan: the value is unchanged by case mapping
            else:
                out.append(c)
        return self._mk(out)

    def __str__(self):
        return self

    def __repr__(self):
        return "SymStr(" + "".join(c if isinstance(c, str) else "□" if isinstance(c, D) else "◇" if isinstance(c, C) else "⟨num⟩" if isinstance(c, T) else "␣?" for c in self._raw) + ")"

    def __format__(self, spec):
        if not spec:
            return self
        m = re.fullmatch(r"(?:(.)?([<>^]))?(\d+)?(?:\.(\d+))?s?", spec)
        if not m:
            raise Inconclusive(f"format spec {spec!r} on a layout string")
        fill, align, width, prec = m.groups()
        s = self
        if prec is not None:
            s = s[: int(prec)]
            if not isinstance(s, SymStr):
                return format(s, (fill or "") + (align or "") + (width or "") + "s")
        if width is not None:
            w = int(width)
            fill = fill or " "
            if align == ">":
                s = s.rjust(w, fill)
            elif align == "^":
                s = s.center(w, fill)
            else:
                s = s.ljust(w, fill)
        return s

    def encode(self, *a, **k):
        raise Inconclusive("encode() on a layout string")

    # ---- parsing -------------------------------------------------------
    def _numeric_cells(self):
        cs = cells_of(self._strip(None, True, True))
        while cs and _is_ws(cs[0]):
            cs.pop(0)
        while cs and _is_ws(cs[-1]):
            cs.pop()
        return cs

    def _shape(self, specials):
        """Classify every cell (forking on symbolic characters where the class
        matters) -> (shape string acceptable to CPython's own parser, digit
        values in order).  Digits become '1' in the shape."""
        cs = self._numeric_cells()
        shape = []
        digits = []
        for c in cs:
            if isinstance(c, T):
                raise ValueError("numeric token glued to other characters")
            if isinstance(c, str):
                if c in "0123456789":
                    shape.append("1")
                    digits.append(int(c))
                else:
                    shape.append(c)
            elif isinstance(c, D):
                shape.append("1")
                digits.append(SymInt(c.t))
            else:  # C
                dig = "".join(ch for ch in c.alpha if ch in "0123456789")
                if dig and (len(dig) == len(c.alpha) or bool(_to_sb(_cell_in(c, dig)))):
                    shape.append("1")
                    digits.append(SymInt(c.t - 48))
                    continue
                done = False
                for ch in sorted(c.alpha & set(specials)):
                    if bool(_to_sb(_cell_eq(c, ch))):
                        shape.append(ch)
                        done = True
                        break
                if not done:
                    shape.append("x")
        return "".join(shape), digits

    def parse_int(self):
        cs = self._numeric_cells()
        if len(cs) == 1 and isinstance(cs[0], T):
            v = cs[0].value
            if isinstance(v, (SymInt, int)):
                return v
            raise ValueError("invalid literal for int() with base 10 (token renders a real)")
        shape, digits = self._shape("+-_")
        try:
            int(shape)
        except ValueError:
            raise ValueError(f"invalid literal for int() with base 10: {self!r}") from None
        val = 0
        for d in digits:
            val = val * 10 + d
        return -val if shape.startswith("-") else val

    def parse_float(self):
        cs = self._numeric_cells()
        if len(cs) == 1 and isinstance(cs[0], T):
            return cs[0].value
        shape, digits = self._shape("eE.+-_nNaAiIfFtTyY")
        try:
            probe = float(shape)
        except ValueError:
            raise ValueError(f"could not convert string to float: {self!r}") from None
        if probe != probe or probe in (float("inf"), float("-inf")):
            return probe
        body = shape.lstrip("+-")
        neg = shape.startswith("-")
        mant, _, exp = body.lower().partition("e")
        ip, _, fp = mant.partition(".")
        nmant = ip.count("1") + fp.count("1")
        scale = fp.count("1")
        mdig, edig = digits[:nmant], digits[nmant:]
        val = 0
        for d in mdig:
            val = val * 10 + d
        if isinstance(val, SymInt):
            val = SymReal(z3.ToReal(val.t))
        else:
            val = float(val) if not scale else val
        if scale:
            val = val / (10 ** scale)
        if exp:
            if any(not isinstance(d, int) for d in edig):
                raise Inconclusive("symbolic exponent digits")
            e = 0
            for d in edig:
                e = e * 10 + d
            if exp.startswith("-"):
                e = -e
            val = val * (10 ** e) if e >= 0 else val / (10 ** (-e))
        return -val if neg else val

    # ---- concretisation -----------------------------------------------
    def concrete(self, model):
        out = []
        for c in self._raw:
            if isinstance(c, str):
                out.append(c)
            elif isinstance(c, D):
                out.append(str(model.eval(c.t, model_completion=True).as_long()))
            elif isinstance(c, C):
                out.append(chr(model.eval(c.t, model_completion=True).as_long()))
            elif isinstance(c, OPT):
                if z3.is_true(model.eval(c.cond.t if isinstance(c.cond, SymBool) else z3.BoolVal(c.cond) if isinstance(c.cond, bool) else c.cond, model_completion=True)):
                    out.append(" ")
            else:
                out.append("<num>")
        return "".join(out)


# --------------------------------------------------------------------------
# number rendering
# --------------------------------------------------------------------------

_SPEC = re.compile(r"(?:(.)?([<>=^]))?([-+ ])?(#)?(0)?(\d+)?(,)?(?:\.(\d+))?([a-zA-Z%])?$")


def _pad(cells, width, align, fill, numeric=True):
    n = len(cells)
    if width is None or n >= width:
        return cells
    pad = [fill] * (width - n)
    if align is None:
        align = ">" if numeric else "<"
    if align == ">":
        return pad + cells
    if align == "<":
        return cells + pad
    if align == "^":
        left = (width - n) // 2
        return [fill] * left + cells + [fill] * (width - n - left)
    if align == "=":
        if cells and isinstance(cells[0], str) and cells[0] in "+-":
            return cells[:1] + pad + cells[1:]
        return pad + cells
    raise Inconclusive(f"alignment {align}")


def _digit_vars(eng, total, n, hint):
    """n fresh digit variables (most significant first) with
    total == sum d_k 10^k, 0 <= d_k <= 9: a purely linear encoding."""
    ds = [z3.Int(f"{hint}!d{next(eng.counter)}") for _ in range(n)]
    for d in ds:
        eng.solver.add(d >= 0, d <= 9)
    eng.solver.add(total == z3.Sum([d * (10 ** (n - 1 - k)) for k, d in enumerate(ds)]))
    return ds


def _int_digit_cells(eng, m, hint, low_digits=0):
    """m: z3 Int term known >= 0.  Forks on the digit count of m div
    10^low_digits; returns (integer-part cells, low cells)."""
    mv = z3.Int(f"{hint}!m{next(eng.counter)}")
    eng.solver.add(mv == m)
    nd = None
    for k in range(1, MAX_INT_DIGITS + 1):
        if eng.branch(mv < 10 ** (k + low_digits)):
            nd = k
            break
    if nd is None:
        raise Inconclusive(f"number with more than {MAX_INT_DIGITS} digits")
    ds = _digit_vars(eng, mv, nd + low_digits, hint)
    cells = [D(d) for d in ds]
    return cells[:nd], cells[nd:]


def format_number(v, spec):
    eng = core.cur()
    m = _SPEC.match(spec or "")
    if not m:
        raise Inconclusive(f"format spec {spec!r}")
    fill, align, sign, alt, zero, width, comma, prec, typ = m.groups()
    if alt or comma:
        raise Inconclusive(f"format spec {spec!r}")
    width = int(width) if width else None
    if zero and fill is None and align is None:
        fill, align = "0", "="
    fill = fill or " "
    if isinstance(v, SymInt):
        if typ in (None, "d", "n"):
            neg = eng.branch(v.t < 0)
            mag = -v.t if neg else v.t
            cells, _ = _int_digit_cells(eng, mag, "i")
            cells = (["-"] if neg else ["+"] if sign == "+" else [" "] if sign == " " else []) + cells
            return mk(_pad(cells, width, align, fill))
        if typ in ("f", "F", "e", "E", "g", "G"):
            v = SymReal(z3.ToReal(v.t))
        else:
            raise Inconclusive(f"format type {typ!r} for int")
    if isinstance(v, SymReal):
        if typ in ("f", "F"):
            p = int(prec) if prec is not None else 6
            neg = eng.branch(v.t < 0)
            mag = -v.t if neg else v.t
            scaled = z3.Int(f"f!s{next(eng.counter)}")
            t = mag * (10 ** p)
            half = z3.RealVal("1/2")
            sr = z3.ToReal(scaled)
            # scaled = round-half-even(t), stated linearly (no ToInt)
            eng.solver.add(scaled >= 0, sr - half <= t, t <= sr + half, z3.Implies(t == sr + half, scaled % 2 == 0), z3.Implies(t == sr - half, scaled % 2 == 0))
            icells, fcells = _int_digit_cells(eng, scaled, "f", low_digits=p)
            cells = icells + (["."] + fcells if p else [])
            cells = (["-"] if neg else ["+"] if sign == "+" else [" "] if sign == " " else []) + cells
            return mk(_pad(cells, width, align, fill))
        # str(), repr(), 'g', 'e': opaque token carrying the value
        if typ in (None, "g", "G", "e", "E", "r", "s"):
            tol = 0
            if typ in ("e", "E", "g", "G"):
                tol = ("rel", int(prec) if prec is not None else 6)
            # the token's own width is unknown; a width only pads, and padding is
            # blanks (fill other than blank would be inconclusive), so keep the
            # token and put one blank on the padded side: token boundaries are
            # what downstream whitespace parsing depends on
            cells = [T(v, typ or "repr", tol)]
            if typ in ("e", "E") and (width is not None or sign == " "):
                # exponent notation has a known width: [sign] d [. prec digits] E sign, then two exponent
                # digits - or three when the rendered exponent is <= -100 or >= 100.  The sign slot of the
                # ' ' flag and the padding are therefore blanks whose presence depends on the value:
                # optional-blank cells (decided only where they are the sole separator of two fields).
                if fill != " ":
                    raise Inconclusive("non-blank fill on an opaque numeric token")
                p = int(prec) if prec is not None else 6
                half_ulp = Fraction(1, 2 * 10**p)
                a = z3.If(v.t < 0, -v.t, v.t)
                hi = z3.RealVal(str((10 - half_ulp) * Fraction(10) ** 99))
                lo = z3.RealVal(str((10 - half_ulp) / Fraction(10) ** 100))
                three = z3.And(a != 0, z3.Or(a >= hi, a < lo))  # three exponent digits (ties at the two thresholds: measure zero)
                neg = v.t < 0
                base = 1 + (1 + p if p else 0) + 2 + 2  # unsigned, two exponent digits
                lead = []
                if sign == " ":
                    lead = [OPT(z3.Not(neg))]  # the token itself starts with '-' when negative
                    slot = None  # one column always taken
                    room = (width or 0) - base - 1
                    extra = [three]
                elif sign == "+":
                    room = (width or 0) - base - 1
                    extra = [three]
                else:
                    room = (width or 0) - base
                    extra = [three, neg]
                # room blanks minus one per true condition in `extra`
                pads = []
                for j in range(1, room + 1):
                    # blank j (counted from the far end inwards) is present iff  room - (#true) >= j
                    need = room - j  # at most `need` of the conditions may hold
                    if need >= len(extra):
                        pads.append(" ")
                    elif need == 0:
                        pads.append(OPT(z3.Not(z3.Or(extra))))
                    else:  # need == 1, len(extra) == 2
                        pads.append(OPT(z3.Not(z3.And(extra))))
                body = lead + cells
                cells = pads + body if (align or ">") in (">", "=") else body + pads
                return SymStr(cells)
            if width is not None:
                if fill != " ":
                    raise Inconclusive("non-blank fill on an opaque numeric token")
                cells = [PAD] + cells if (align or ">") in (">", "=") else cells + [PAD]
            return SymStr(cells)
        raise Inconclusive(f"format type {typ!r} for float")
    raise TypeError(type(v))


PAD = " "  # optional padding of an opaque token: zero or more blanks (modelled as one)


# --------------------------------------------------------------------------
# str / fstring shims
# --------------------------------------------------------------------------

_str = str


class _StrMeta(type):
    def __instancecheck__(cls, inst):
        return isinstance(inst, _str)

    def __getattr__(cls, name):
        real = getattr(_str, name)

        def unbound(s, *a, **k):
            if isinstance(s, SymStr):
                return getattr(s, name)(*a, **k)
            if name == "join" and any(isinstance(x, SymStr) for x in (a[0] if a else ())):
                items = list(a[0])
                return SymStr(list(s), True).join(items)
            if any(isinstance(x, SymStr) for x in a):
                return getattr(SymStr(list(s)), name)(*a, **k)
            return real(s, *a, **k)

        return unbound


class sym_str_t(metaclass=_StrMeta):
    """``str`` stand-in for module namespaces (call, isinstance, unbound methods)."""

    def __new__(cls, x="", *a):
        if isinstance(x, SymStr):
            return x
        if isinstance(x, (SymInt, SymReal)):
            return format_number(x, "")
        if isinstance(x, SymBool):
            raise Inconclusive("str() of a symbolic bool")
        return _str(x, *a)


def fmt(value, conv, spec):
    """one replacement field of a rewritten f-string"""
    if conv == "r":
        if isinstance(value, (SymStr, SymInt, SymReal)):
            if isinstance(value, SymStr):
                return "'" + value + "'"
            return format_number(value, "")
        value = repr(value)
    elif conv == "s":
        value = sym_str_t(value)
    elif conv == "a":
        value = ascii(value)
    return format(value, spec)


def fstring(*parts):
    if any(isinstance(p, SymStr) for p in parts):
        out = []
        sticky = False
        for p in parts:
            out.extend(cells_of(p, raw=True))
            sticky = sticky or getattr(p, "sticky", False)
        return mk(out, sticky)
    return "".join(parts)


def join(sep, items):
    items = list(items)
    if isinstance(sep, SymStr) or any(isinstance(x, SymStr) for x in items):
        return (sep if isinstance(sep, SymStr) else SymStr(list(sep))).join(items)
    return sep.join(items)


def sym_name(eng, name, length, alphabet):
    """symbolic name of fixed length over the alphabet (non-blank characters)"""
    alpha = frozenset(alphabet)
    cells = []
    for k in range(length):
        v = eng.int(f"{name}_c{k}")
        eng.solver.add(z3.Or([v.t == ord(ch) for ch in sorted(alpha)]))
        cells.append(C(v.t, alpha))
    return SymStr(cells)


def leaked(obj):
    """True if a plain str somewhere in obj contains the poison marker."""
    if isinstance(obj, SymStr):
        return False
    if isinstance(obj, str):
        return POISON in obj
    if isinstance(obj, (list, tuple)):
        return any(leaked(x) for x in obj)
    if isinstance(obj, dict):
        return any(leaked(k) or leaked(v) for k, v in obj.items())
    return False


# --------------------------------------------------------------------------
# self test against CPython
# --------------------------------------------------------------------------


def selftest(pin):
    ok = True
    cases_f = [
        (0.0, "8.3f"), (1.0005, "8.3f"), (-0.0004, "8.3f"), (9999.9994, "8.3f"), (-999.9996, "8.3f"), (12345.678, "8.3f"),
        (-0.5, ".4f"), (99.99994, ".4f"), (0.12344, ".4f"), (123.456, "10.4f"), (-1.5, "7.2f"), (3.14159, ">6.2f"), (2.0, ".0f"),
    ]
    for x, spec in cases_f:
        out, model = pin(lambda a: format_number(a, spec), "r", [x])
        got = out.concrete(model) if isinstance(out, SymStr) else out
        want = format(x, spec)
        # exact decimal ties may legitimately differ from the binary float; none of the cases is a tie
        if got != want:
            ok = False
            print("selftest: format", x, spec, repr(got), repr(want))
    for n, spec in [(0, "d"), (7, "d"), (-7, "d"), (99999, "d"), (100000, "d"), (-1000, "d"), (42, "5d"), (-42, "<6d"), (12, "04d"), (5, "")]:
        out, model = pin(lambda a: format_number(a, spec), "i", [n])
        got = out.concrete(model) if isinstance(out, SymStr) else out
        if got != format(n, spec):
            ok = False
            print("selftest: format int", n, spec, repr(got), repr(format(n, spec)))
    # exponent notation: blanks around the (opaque) number token, incl. three-digit exponents
    for spec in ("< 13.5E", "13.5E", "<13.5E", ">14.3e", "< 10.2E", "+12.4e", " .5E", "<+13.5E"):
        for x in (3e-120, -2.5e105, 1.0, -1.0, 0.0, 9.99999e99, 9.999996e99, 1e100, -1e100, 1e-99, 9.99999e-100, 9.999996e-100, 123.456, -4e-250, 5e-324, 1.7e308):
            out, model = pin(lambda a: format_number(a, spec), "r", [x])
            got = out.concrete(model)
            want = re.sub(r"\S+", "<num>", format(x, spec))
            if got != want:
                ok = False
                print("selftest: format E", x, spec, repr(got), repr(want), repr(format(x, spec)))
    # parse back
    for x, spec in cases_f[:8]:
        def rt(a, spec=spec):
            s = format_number(a, spec)
            return s.parse_float() if isinstance(s, SymStr) else core.SymReal(core.rv(float(s)))
        got = pin(rt, "r", [x])
        want = float(format(x, spec))
        if abs(float(got) - want) > 1e-12:
            ok = False
            print("selftest: parse", x, spec, got, want)
    # structural ops vs str on concrete sticky strings
    samples = ["ATOM      1  N   ALA A   1      -1.000   2.000   3.000  0.1000 1.5000", "  a  bb   c ", "x-y-z", "FLIPNFLIP"]
    for s in samples:
        w = wrap(s)
        checks = [
            ([str(t) if not isinstance(t, SymStr) else "".join(t.cells) for t in w.split()], s.split()),
            ("".join(w.strip().cells) if isinstance(w.strip(), SymStr) else w.strip(), s.strip()),
            ("".join(w[3:9].cells), s[3:9]),
            ("".join(w.ljust(80).cells), s.ljust(80)),
            ("".join(w.rjust(80).cells), s.rjust(80)),
            ("".join(w.replace("-", " -").cells), s.replace("-", " -")),
            ("".join(w.strip("FLIP").cells), s.strip("FLIP")),
            (w.find("bb"), s.find("bb")),
            (w.startswith("ATOM"), s.startswith("ATOM")),
            ([("".join(t.cells)) for t in w.split("-")], s.split("-")),
            ("".join(format(w, ">90s").cells), format(s, ">90s")),
            ("".join(format(w, "4.4s").cells), format(s, "4.4s")),
        ]
        for got, want in checks:
            if got != want:
                ok = False
                print("selftest: str op", repr(s), got, want)
    return ok
