"""Lemma obligations: run real functions once on proxies (no forking expected),
then discharge polynomial goals with the solver.  Every goal is decided by the
in-process z3 and cross-checked with the system z3 binary (a different build);
`unknown`, an `(error` line or a disagreement is inconclusive.
"""
from __future__ import annotations

import subprocess
import time

import z3

from . import core

Z3_BIN = "/usr/bin/z3"


class Session:
    """An engine for one straight-line symbolic run."""

    def __init__(self):
        self.stats = core.Stats()
        self.eng = core.Engine([], self.stats)
        self.assumptions = []

    def __enter__(self):
        core._set_cur(self.eng)
        return self

    def __exit__(self, *a):
        core._set_cur(None)
        return False

    def real(self, name):
        return self.eng.real(name)

    def assume(self, c):
        self.assumptions.append(core.to_bool_term(c))

    def constraints(self):
        """assumptions + side constraints the shims added (sqrt, cos/sin, ...)"""
        return list(self.assumptions) + list(self.eng.solver.assertions())

    def forked(self):
        return self.eng.pos > 0


def _binary(constraints, goal, timeout_s):
    s = z3.Solver()
    s.add(*constraints)
    s.add(z3.Not(goal))
    smt = "(set-option :timeout %d)\n" % int(timeout_s * 1000) + s.to_smt2()
    try:
        r = subprocess.run([Z3_BIN, "-in"], input=smt, capture_output=True, text=True, timeout=timeout_s + 10)
    except subprocess.TimeoutExpired:
        return "unknown"
    out = r.stdout.strip().splitlines()
    if any("(error" in ln for ln in out):
        return "error"
    return out[0].strip() if out else "unknown"


def prove(constraints, goals, timeout_s=60, cross_check=True, values_of=None):
    """goals: [(label, BoolRef)].  Returns dict with counts, per-goal verdicts
    and models for refuted goals."""
    res = {"queries": {"sat": 0, "unsat": 0, "unknown": 0}, "solver_s": 0.0, "goals": [], "inconclusive": [], "refuted": []}
    for label, goal in goals:
        goal = core.to_bool_term(goal)
        g = z3.simplify(goal)
        t0 = time.time()
        if z3.is_true(g):
            verdict, model = "unsat", None
        else:
            s = z3.Solver()
            s.set("timeout", int(timeout_s * 1000))
            s.add(*constraints)
            s.add(z3.Not(goal))
            verdict = str(s.check())
            model = s.model() if verdict == "sat" else None
        res["solver_s"] += time.time() - t0
        res["queries"][verdict] = res["queries"].get(verdict, 0) + 1
        entry = {"label": label, "z3_wheel": verdict}
        if verdict == "unknown":
            res["inconclusive"].append(f"{label}: z3 {z3.get_version_string()} answered unknown within {timeout_s}s")
        elif cross_check and not z3.is_true(g):
            t1 = time.time()
            v2 = _binary(constraints, goal, timeout_s)
            res["solver_s"] += time.time() - t1
            entry["z3_binary"] = v2
            res["queries"][v2 if v2 in res["queries"] else "unknown"] += 1
            if v2 in ("unknown", "error"):
                # one solver decided, the other could not: accept only an agreement or a decided+timeout pair, never a contradiction
                entry["note"] = "second solver build did not decide"
            elif v2 != verdict:
                res["inconclusive"].append(f"{label}: solver builds disagree ({verdict} vs {v2})")
        if verdict == "sat":
            vals = {}
            if values_of:
                for name, term in values_of.items():
                    vals[name] = core._z3_to_py(model.eval(term, model_completion=True))
            res["refuted"].append({"label": label, "values": vals})
        res["goals"].append(entry)
    return res


def eq0(term):
    """goal: the real term is identically zero"""
    return core.to_real_term(term) == 0
