"""Differential validation of the symx value models against CPython.

Every model (int truncation, floor division, modulo, round-half-even, number
formatting and parsing of layout strings) is evaluated with all symbols pinned
to concrete values and compared with what CPython computes.
"""
from fractions import Fraction

import z3

from . import core


def _pin(term_builder, kinds, vals):
    """Build a term over fresh vars pinned to concrete values, evaluate it."""
    vs = [z3.Real(f"st{i}") if k == "r" else z3.Int(f"st{i}") for i, k in enumerate(kinds)]
    prox = [core.SymReal(v) if k == "r" else core.SymInt(v) for v, k in zip(vs, kinds)]
    eng = core.Engine([], core.Stats())
    for v, x in zip(vs, vals):
        eng.solver.add(v == (core.rv(x) if not isinstance(x, int) else x))
    core._set_cur(eng)
    try:
        out = term_builder(*prox)
    finally:
        core._set_cur(None)
    assert str(eng.solver.check()) == "sat"
    if isinstance(out, (core.SymInt, core.SymReal, core.SymBool)):
        return core._z3_to_py(eng.solver.model().eval(out.t, model_completion=True))
    return out, eng.solver.model()


def run(quiet=False):
    ok = True
    reals = [0.0, 0.5, -0.5, 1.5, 2.5, -1.5, -2.5, 3.999, -3.999, 7.0, -7.0, 1234.5678, -0.0005, 9999.9995, 2.675]
    ints = [0, 1, -1, 7, -7, 10, -10, 99999, 100000, -1000]
    divs = [1, 2, 5, -2, -5, 3, -3]
    for x in reals:
        got = _pin(lambda a: core.sym_trunc(a), "r", [x])
        if got != int(Fraction(repr(x))):
            ok = False
            print("selftest: trunc", x, got)
        got = _pin(lambda a: core.sym_round(a), "r", [x])
        if got != round(Fraction(repr(x))):
            ok = False
            print("selftest: round", x, got)
        for n in (1, 3):
            got = _pin(lambda a: core.sym_round(a, n), "r", [x])
            if got != round(Fraction(repr(x)), n):
                ok = False
                print("selftest: round n", x, n, got)
    for a in ints:
        for b in divs:
            got = _pin(lambda p, q: p // q, "ii", [a, b])
            if got != a // b:
                ok = False
                print("selftest: floordiv", a, b, got)
            got = _pin(lambda p, q: p % q, "ii", [a, b])
            if got != a % b:
                ok = False
                print("selftest: mod", a, b, got)
            got = _pin(lambda p: p // b, "i", [a])
            if got != a // b:
                ok = False
                print("selftest: floordiv const", a, b, got)
    try:
        from . import strs

        ok = strs.selftest(_pin) and ok
    except ImportError:
        pass
    if not quiet:
        print("selftest", "ok" if ok else "FAILED")
    return ok
