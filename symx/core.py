"""symx core: symbolic execution of real Python functions on z3-backed proxies.

The real function objects of pdb2pqr are *called*; Python runs them natively
and every operation on a proxy builds a z3 term.  ``SymBool.__bool__`` is the
only fork point: the engine keeps a decision prefix, re-executes the harness
from the start for every path (DFS) and asks z3 which sides are feasible.

Nothing in here knows about pdb2pqr.
"""
from __future__ import annotations

import itertools
import time
import traceback
from fractions import Fraction

import z3

# --------------------------------------------------------------------------
# exceptions
# --------------------------------------------------------------------------


class PathInfeasible(BaseException):
    """Raised inside a harness when the current path condition is unsat."""


class Inconclusive(Exception):
    """The engine cannot decide (unknown, cap, escaped symbolic value)."""


class ReplayMismatch(Exception):
    """Concrete replay could not satisfy an assumption of the harness."""


# --------------------------------------------------------------------------
# the current engine (one per path); proxies find it through this global
# --------------------------------------------------------------------------

_CUR = None


def cur():
    if _CUR is None:
        raise Inconclusive("symbolic value used outside an engine run")
    return _CUR


def _set_cur(e):
    global _CUR
    _CUR = e


QUERY_TIMEOUT_MS = 60000


# --------------------------------------------------------------------------
# helpers: python constant -> z3
# --------------------------------------------------------------------------


def _frac(v):
    if isinstance(v, bool):
        return Fraction(int(v))
    if isinstance(v, int):
        return Fraction(v)
    if isinstance(v, float):
        if v != v or v in (float("inf"), float("-inf")):
            raise Inconclusive("non-finite float constant meets a symbolic value")
        return Fraction(repr(float(v)))  # float(): numpy.float64 is a float subclass whose repr is not a literal
    if isinstance(v, Fraction):
        return v
    raise TypeError(type(v))


def rv(v):
    f = _frac(v)
    return z3.RealVal(f"{f.numerator}/{f.denominator}") if f.denominator != 1 else z3.RealVal(f.numerator)


def is_sym(v):
    return isinstance(v, (SymInt, SymReal, SymBool))


def to_real_term(v):
    """z3 Real term for python number or proxy."""
    if isinstance(v, SymReal):
        return v.t
    if isinstance(v, SymInt):
        return z3.ToReal(v.t)
    if isinstance(v, SymBool):
        return z3.If(v.t, z3.RealVal(1), z3.RealVal(0))
    if isinstance(v, (int, float, Fraction)):
        return rv(v)
    return NotImplemented


def to_int_term(v):
    if isinstance(v, SymInt):
        return v.t
    if isinstance(v, SymBool):
        return z3.If(v.t, z3.IntVal(1), z3.IntVal(0))
    if isinstance(v, bool):
        return z3.IntVal(int(v))
    if isinstance(v, int):
        return z3.IntVal(v)
    return NotImplemented


def to_bool_term(v):
    if isinstance(v, SymBool):
        return v.t
    if isinstance(v, bool):
        return z3.BoolVal(v)
    if z3.is_bool(v):
        return v
    if isinstance(v, (SymInt, SymReal)):
        return (v != 0).t
    if isinstance(v, (int, float)) or type(v).__module__ == "numpy":
        return z3.BoolVal(bool(v))
    raise TypeError(f"not a boolean: {type(v)}")


def _simp(t):
    return z3.simplify(t)


# --------------------------------------------------------------------------
# proxies
# --------------------------------------------------------------------------


class SymBool:
    __slots__ = ("t",)

    def __init__(self, t):
        self.t = t

    def __bool__(self):
        return cur().branch(self.t)

    def __and__(self, o):
        return SymBool(z3.And(self.t, to_bool_term(o)))

    __rand__ = __and__

    def __or__(self, o):
        return SymBool(z3.Or(self.t, to_bool_term(o)))

    __ror__ = __or__

    def __invert__(self):
        return SymBool(z3.Not(self.t))

    def __xor__(self, o):
        return SymBool(z3.Xor(self.t, to_bool_term(o)))

    __rxor__ = __xor__

    def __eq__(self, o):
        if isinstance(o, (SymBool, bool)):
            return SymBool(self.t == to_bool_term(o))
        return NotImplemented

    def __ne__(self, o):
        if isinstance(o, (SymBool, bool)):
            return SymBool(self.t != to_bool_term(o))
        return NotImplemented

    __hash__ = object.__hash__

    def __repr__(self):
        return f"SymBool({self.t})"


def _arith(a, b, op, rop=False):
    """Binary arithmetic with python numeric tower semantics."""
    if isinstance(b, SymStrBase):
        return NotImplemented
    if rop:
        a, b = b, a
    a_int = isinstance(a, (SymInt, SymBool)) or (isinstance(a, int) and not isinstance(a, float))
    b_int = isinstance(b, (SymInt, SymBool)) or (isinstance(b, int) and not isinstance(b, float))
    if a_int and b_int and op != "truediv":
        ta, tb = to_int_term(a), to_int_term(b)
        if ta is NotImplemented or tb is NotImplemented:
            return NotImplemented
        if op == "add":
            return SymInt(ta + tb)
        if op == "sub":
            return SymInt(ta - tb)
        if op == "mul":
            return SymInt(ta * tb)
        if op == "floordiv":
            return SymInt(_int_floordiv(ta, tb))
        if op == "mod":
            return SymInt(ta - tb * _int_floordiv(ta, tb))
        raise Inconclusive(f"unsupported int op {op}")
    ta, tb = to_real_term(a), to_real_term(b)
    if ta is NotImplemented or tb is NotImplemented:
        return NotImplemented
    if op == "add":
        return SymReal(ta + tb)
    if op == "sub":
        return SymReal(ta - tb)
    if op == "mul":
        return SymReal(ta * tb)
    if op == "truediv":
        _nonzero(tb)
        return SymReal(ta / tb)
    if op == "floordiv":
        _nonzero(tb)
        return SymReal(z3.ToReal(z3.ToInt(ta / tb)))
    if op == "mod":
        _nonzero(tb)
        return SymReal(ta - tb * z3.ToReal(z3.ToInt(ta / tb)))
    raise Inconclusive(f"unsupported real op {op}")


def _nonzero(tb):
    """Division: python raises ZeroDivisionError; fork on it so both are seen."""
    tb = _simp(tb)
    if z3.is_rational_value(tb) or z3.is_int_value(tb):
        if tb.as_fraction() == 0 if z3.is_rational_value(tb) else tb.as_long() == 0:
            raise ZeroDivisionError("division by zero")
        return
    if cur().branch(tb == 0):
        raise ZeroDivisionError("division by zero")


def _int_floordiv(ta, tb):
    tb_s = _simp(tb)
    if z3.is_int_value(tb_s):
        c = tb_s.as_long()
        if c == 0:
            raise ZeroDivisionError("integer division or modulo by zero")
        if c > 0:
            return ta / tb_s  # z3 int div with positive divisor is floor
        return (-ta) / z3.IntVal(-c)
    _nonzero(tb)
    return z3.If(tb > 0, ta / tb, (-ta) / (-tb))


def _cmp(a, b, op):
    if isinstance(b, SymStrBase):
        return NotImplemented
    a_int = isinstance(a, (SymInt, SymBool)) or (isinstance(a, int) and not isinstance(a, float))
    b_int = isinstance(b, (SymInt, SymBool)) or (isinstance(b, int) and not isinstance(b, float))
    if a_int and b_int:
        ta, tb = to_int_term(a), to_int_term(b)
    else:
        ta, tb = to_real_term(a), to_real_term(b)
    if ta is NotImplemented or tb is NotImplemented:
        return NotImplemented
    if op == "lt":
        return SymBool(ta < tb)
    if op == "le":
        return SymBool(ta <= tb)
    if op == "gt":
        return SymBool(ta > tb)
    if op == "ge":
        return SymBool(ta >= tb)
    if op == "eq":
        return SymBool(ta == tb)
    if op == "ne":
        return SymBool(ta != tb)
    raise AssertionError(op)


class SymStrBase:
    """Marker base so numeric proxies refuse to mix with layout strings."""


class _Num:
    __slots__ = ("t",)

    def __add__(self, o):
        return _arith(self, o, "add")

    def __radd__(self, o):
        return _arith(self, o, "add", True)

    def __sub__(self, o):
        return _arith(self, o, "sub")

    def __rsub__(self, o):
        return _arith(self, o, "sub", True)

    def __mul__(self, o):
        return _arith(self, o, "mul")

    def __rmul__(self, o):
        return _arith(self, o, "mul", True)

    def __truediv__(self, o):
        return _arith(self, o, "truediv")

    def __rtruediv__(self, o):
        return _arith(self, o, "truediv", True)

    def __floordiv__(self, o):
        return _arith(self, o, "floordiv")

    def __rfloordiv__(self, o):
        return _arith(self, o, "floordiv", True)

    def __mod__(self, o):
        return _arith(self, o, "mod")

    def __rmod__(self, o):
        return _arith(self, o, "mod", True)

    def __pow__(self, o):
        if isinstance(o, int) and not isinstance(o, bool) and 0 <= o <= 8:
            r = 1
            for _ in range(o):
                r = r * self
            return r
        if isinstance(o, float) and o == 0.5:
            from . import shims

            return shims.sym_sqrt(self)
        raise Inconclusive(f"unsupported power {o!r} of a symbolic value")

    def __neg__(self):
        return type(self)(-self.t)

    def __pos__(self):
        return self

    def __abs__(self):
        return type(self)(z3.If(self.t >= 0, self.t, -self.t))

    def __lt__(self, o):
        return _cmp(self, o, "lt")

    def __le__(self, o):
        return _cmp(self, o, "le")

    def __gt__(self, o):
        return _cmp(self, o, "gt")

    def __ge__(self, o):
        return _cmp(self, o, "ge")

    def __eq__(self, o):
        if o is None:
            return False
        return _cmp(self, o, "eq")

    def __ne__(self, o):
        if o is None:
            return True
        return _cmp(self, o, "ne")

    __hash__ = object.__hash__

    def __bool__(self):
        return bool(self != 0)


class SymInt(_Num):
    __slots__ = ()

    def __init__(self, t):
        self.t = t

    def __repr__(self):
        return f"SymInt({self.t})"

    def __format__(self, spec):
        from . import strs

        return strs.format_number(self, spec)

    def __str__(self):
        from . import strs

        return strs.format_number(self, "d")


class SymReal(_Num):
    __slots__ = ()

    def __init__(self, t):
        self.t = t

    def __repr__(self):
        return f"SymReal({self.t})"

    def __format__(self, spec):
        from . import strs

        return strs.format_number(self, spec)

    def __round__(self, n=None):
        return sym_round(self, n)


# --------------------------------------------------------------------------
# builtin shims (installed into the *module namespace* of the code under test)
# --------------------------------------------------------------------------

_int = int
_float = float
_round = round
_abs = abs
_min = min
_max = max
_str = str


def sym_trunc(x):
    t = x.t
    return SymInt(z3.If(t >= 0, z3.ToInt(t), -z3.ToInt(-t)))


def _floor_int(t):
    """z3 Int term equal to floor(t).  With an active engine: a fresh integer m pinned by the linear
    constraints m <= t < m + 1 (one per distinct term, shared by floor and round)."""
    if _CUR is None:
        return z3.ToInt(t)
    eng = _CUR
    key = ("floor", z3.simplify(t).get_id())
    if key in eng.memo:
        return eng.memo[key][1]
    m = z3.Int(f"floor!{next(eng.counter)}")
    mr = z3.ToReal(m)
    eng.solver.add(mr <= t, t < mr + 1)
    eng.memo[key] = (t, m)
    return m


def sym_floor(x):
    if isinstance(x, SymInt):
        return x
    return SymInt(_floor_int(x.t))


def sym_round(x, n=None):
    """round-half-even on exact reals (CPython rounds the exact binary value
    correctly; on the decimal reals used here ties are exact ties)."""
    if isinstance(x, SymInt):
        return x
    if n is None:
        return SymInt(_round_half_even_int(x.t))
    if not isinstance(n, int):
        raise Inconclusive("symbolic ndigits")
    scale = 10 ** n
    m = _round_half_even_int(x.t * scale)
    return SymReal(z3.ToReal(m) / scale)


def _round_half_even_int(t):
    """z3 Int term equal to round-half-even(t).  With an active engine the
    result is a fresh integer pinned by linear constraints (much easier for
    the solver than ToInt/ite/mod chains)."""
    if _CUR is not None:
        eng = _CUR
        key = ("rhe", z3.simplify(t).get_id())
        if key in eng.memo:
            return eng.memo[key][1]
        r = z3.Int(f"round!{next(eng.counter)}")
        rr = z3.ToReal(r)
        half = z3.RealVal("1/2")
        # ties go to the even neighbour; evenness as r = 2k with a fresh k (linear; no mod)
        k = z3.Int(f"roundk!{next(eng.counter)}")
        eng.solver.add(rr - half <= t, t <= rr + half, z3.Implies(z3.Or(t == rr + half, t == rr - half), r == 2 * k))
        # redundant (implied) link to the floor of the same term: without it the solver has to discover
        # r in {floor, floor + 1} by itself, which it does not do reliably (probe: unknown at 60 s vs 0.01 s)
        m = _floor_int(t)
        eng.solver.add(z3.Or(r == m, r == m + 1))
        eng.memo[key] = (t, r)
        return r
    fl = z3.ToInt(t)
    frac = t - z3.ToReal(fl)
    half = z3.RealVal("1/2")
    return z3.If(frac < half, fl, z3.If(frac > half, fl + 1, z3.If(fl % 2 == 0, fl, fl + 1)))


class _IntShim:
    """Replacement for the builtin ``int`` in a module namespace."""

    def __call__(self, x=0, *a):
        if isinstance(x, SymReal):
            return sym_trunc(x)
        if isinstance(x, SymInt):
            return x
        if isinstance(x, SymBool):
            return SymInt(to_int_term(x))
        if isinstance(x, SymStrBase):
            return x.parse_int()
        return _int(x, *a)

    def __instancecheck__(self, inst):
        return isinstance(inst, (_int, SymInt))


class _FloatShim:
    def __call__(self, x=0.0):
        if isinstance(x, SymReal):
            return x
        if isinstance(x, (SymInt, SymBool)):
            return SymReal(to_real_term(x))
        if isinstance(x, SymStrBase):
            return x.parse_float()
        return _float(x)

    def __instancecheck__(self, inst):
        return isinstance(inst, (_float, SymReal))


class _ShimMeta(type):
    def __instancecheck__(cls, inst):
        return isinstance(inst, cls._accept)


class sym_int_t(metaclass=_ShimMeta):
    """``int`` stand-in usable both as a call and in isinstance()."""

    _accept = (_int, SymInt)

    def __new__(cls, x=0, *a):
        return _IntShim()(x, *a)


class sym_float_t(metaclass=_ShimMeta):
    _accept = (_float, SymReal)

    def __new__(cls, x=0.0):
        return _FloatShim()(x)


def sym_round_shim(x, n=None):
    if isinstance(x, (SymReal, SymInt)):
        return sym_round(x, n)
    return _round(x, n) if n is not None else _round(x)


def sym_abs(x):
    return abs(x)


def sym_min(*a, **k):
    if len(a) == 1:
        a = tuple(a[0])
    if not any(is_sym(v) for v in a):
        return _min(a, **k)
    r = a[0]
    for v in a[1:]:
        r = If(v < r, v, r)
    return r


def sym_max(*a, **k):
    if len(a) == 1:
        a = tuple(a[0])
    if not any(is_sym(v) for v in a):
        return _max(a, **k)
    r = a[0]
    for v in a[1:]:
        r = If(v > r, v, r)
    return r


# --------------------------------------------------------------------------
# term-level combinators that work for proxies *and* concrete values, so that
# harness oracles are written once and run in both symbolic and replay mode
# --------------------------------------------------------------------------


def And(*xs):
    xs = [x for x in (xs[0] if len(xs) == 1 and isinstance(xs[0], (list, tuple)) else xs)]
    if not any(isinstance(x, SymBool) or z3.is_bool(x) for x in xs):
        return all(bool(x) for x in xs)
    return SymBool(z3.And([to_bool_term(x) for x in xs]) if xs else z3.BoolVal(True))


def Or(*xs):
    xs = [x for x in (xs[0] if len(xs) == 1 and isinstance(xs[0], (list, tuple)) else xs)]
    if not any(isinstance(x, SymBool) or z3.is_bool(x) for x in xs):
        return any(bool(x) for x in xs)
    return SymBool(z3.Or([to_bool_term(x) for x in xs]) if xs else z3.BoolVal(False))


def Not(x):
    if isinstance(x, SymBool):
        return SymBool(z3.Not(x.t))
    if z3.is_bool(x):
        return SymBool(z3.Not(x))
    return not x


def Implies(a, b):
    return Or(Not(a), b)


def Iff(a, b):
    if isinstance(a, SymBool) or isinstance(b, SymBool):
        return SymBool(to_bool_term(a) == to_bool_term(b))
    return bool(a) == bool(b)


def If(c, a, b):
    """Non-forking conditional value."""
    if not isinstance(c, SymBool):
        return a if c else b
    ct = _simp(c.t)
    if z3.is_true(ct):
        return a
    if z3.is_false(ct):
        return b
    if isinstance(a, (SymBool, bool)) and isinstance(b, (SymBool, bool)):
        return SymBool(z3.If(ct, to_bool_term(a), to_bool_term(b)))
    a_int = isinstance(a, SymInt) or (isinstance(a, int) and not isinstance(a, bool))
    b_int = isinstance(b, SymInt) or (isinstance(b, int) and not isinstance(b, bool))
    if a_int and b_int:
        return SymInt(z3.If(ct, to_int_term(a), to_int_term(b)))
    return SymReal(z3.If(ct, to_real_term(a), to_real_term(b)))


def same(a, b):
    """Term equality of two values (proxy or concrete), never forks."""
    if isinstance(a, (SymBool,)) or isinstance(b, (SymBool,)):
        return Iff(a, b)
    if is_sym(a) or is_sym(b):
        return _cmp(a if is_sym(a) else SymReal(to_real_term(a)), b, "eq")
    return a == b


def close(a, b, tol):
    d = a - b
    return And(d <= tol, d >= -tol)


# --------------------------------------------------------------------------
# engine
# --------------------------------------------------------------------------


class Stats:
    def __init__(self):
        self.paths = 0
        self.infeasible_paths = 0
        self.checks = 0
        self.queries = {"sat": 0, "unsat": 0, "unknown": 0}
        self.solver_s = 0.0
        self.max_depth = 0
        self.labels = {}
        self.samples = []

    def merge(self, o):
        self.paths += o.paths
        self.infeasible_paths += o.infeasible_paths
        self.checks += o.checks
        for k in self.queries:
            self.queries[k] += o.queries[k]
        self.solver_s += o.solver_s
        self.max_depth = max(self.max_depth, o.max_depth)
        for k, v in o.labels.items():
            self.labels[k] = self.labels.get(k, 0) + v
        for s in o.samples:
            if len(self.samples) < 6:
                self.samples.append(s)

    def as_dict(self):
        return {
            "paths": self.paths,
            "infeasible_paths": self.infeasible_paths,
            "property_evaluations": self.checks,
            "queries": dict(self.queries),
            "solver_s": round(self.solver_s, 3),
            "max_decision_depth": self.max_depth,
            "checks_by_label": dict(self.labels),
        }


class Violation:
    def __init__(self, label, values, decisions, known=None, note=""):
        self.label = label
        self.values = values  # name -> python value (Fraction / int / bool)
        self.decisions = decisions
        self.known = known  # id of a known finding whose region contains it
        self.note = note

    def __repr__(self):
        return f"Violation({self.label}, {self.values}, known={self.known})"


class Engine:
    """One engine per explored path."""

    symbolic = True

    def __init__(self, prefix, stats, known=(), flippable=None):
        self.prefix = list(prefix)
        self.flippable = list(flippable) if flippable is not None else [False] * len(prefix)
        assert len(self.flippable) == len(self.prefix)
        self.pos = 0
        self.solver = z3.Solver()
        self.solver.set("timeout", QUERY_TIMEOUT_MS)
        self.stats = stats
        self.vars = {}
        self.counter = itertools.count()
        self.violations = []
        self.known_hits = {}
        self.known = known  # [(id, callable)]
        self.trace = []
        self.memo = {}
        self.derived = {}

    # ---- variables -------------------------------------------------------
    def _name(self, name):
        if name in self.vars:
            raise Inconclusive(f"duplicate symbolic variable {name}")
        return name

    def real(self, name, lo=None, hi=None):
        v = SymReal(z3.Real(self._name(name)))
        self.vars[name] = v
        if lo is not None:
            self.assume(v >= lo)
        if hi is not None:
            self.assume(v <= hi)
        return v

    def int(self, name, lo=None, hi=None):
        v = SymInt(z3.Int(self._name(name)))
        self.vars[name] = v
        if lo is not None:
            self.assume(v >= lo)
        if hi is not None:
            self.assume(v <= hi)
        return v

    def bool(self, name):
        v = SymBool(z3.Bool(self._name(name)))
        self.vars[name] = v
        return v

    def fresh_real(self, hint="r"):
        return SymReal(z3.Real(f"{hint}!{next(self.counter)}"))

    def fresh_int(self, hint="i"):
        return SymInt(z3.Int(f"{hint}!{next(self.counter)}"))

    def choice(self, name, n):
        """Symbolic selector in range(n), concretised by forking (the solver
        prunes infeasible alternatives)."""
        sel = self.int(name, 0, n - 1)
        for i in range(n - 1):
            if sel == i:
                return i
        return n - 1

    def flag(self, name):
        """Symbolic boolean concretised by forking."""
        return True if self.bool(name) else False

    # ---- path condition --------------------------------------------------
    def _check(self, *extra):
        t0 = time.time()
        r = self.solver.check(*extra)
        self.stats.solver_s += time.time() - t0
        s = str(r)
        self.stats.queries[s] = self.stats.queries.get(s, 0) + 1
        return s

    def assume(self, c):
        t = to_bool_term(c)
        self.solver.add(t)
        ts = _simp(t)
        if z3.is_true(ts):
            return
        r = self._check()
        if r == "unknown":
            raise Inconclusive("solver returned unknown on an assumption")
        if r == "unsat":
            raise PathInfeasible()

    def branch(self, cond):
        cond = _simp(cond)
        if z3.is_true(cond):
            return True
        if z3.is_false(cond):
            return False
        if self.pos < len(self.prefix):
            taken = self.prefix[self.pos]
        else:
            rt = self._check(cond)
            # the path condition is satisfiable (invariant), so if cond is
            # unsat its negation is sat and needs no query
            rf = "sat" if rt == "unsat" else self._check(z3.Not(cond))
            if "unknown" in (rt, rf):
                raise Inconclusive(f"solver returned unknown at a branch: {str(cond)[:200]}")
            taken = rt == "sat"
            self.prefix.append(taken)
            self.flippable.append(rt == "sat" and rf == "sat")
            if len(self.prefix) > MAX_DEPTH:
                raise Inconclusive(f"decision depth cap {MAX_DEPTH} exceeded")
        self.pos += 1
        self.solver.add(cond if taken else z3.Not(cond))
        return taken

    # ---- property --------------------------------------------------------
    def check(self, prop, label="property", note=""):
        """Assert that *prop* holds on the current path for every value of the
        symbolic inputs.  Records a violation (with model) otherwise."""
        self.stats.checks += 1
        self.stats.labels[label] = self.stats.labels.get(label, 0) + 1
        if prop is True:
            return True
        if prop is False:
            p = z3.BoolVal(False)
        else:
            p = _simp(to_bool_term(prop))
            if z3.is_true(p):
                return True
        neg = z3.Not(p)
        applicable = [(kid, f) for kid, f, labels in self.known if not labels or label in labels]
        excl = [to_bool_term(Not(f(self))) for _, f in applicable]
        # 1. a violation outside every known region?
        r = self._check(neg, *excl)
        if r == "unknown":
            raise Inconclusive(f"solver returned unknown on property '{label}'")
        ok = True
        if r == "sat":
            self.violations.append(Violation(label, self._model_values(), list(self.prefix[: self.pos]), note=note))
            ok = False
        # 2. witnesses inside known regions (reported as KNOWN-FINDING)
        for kid, f in applicable:
            if kid in self.known_hits:
                continue
            reg = to_bool_term(f(self))
            if z3.is_false(_simp(reg)):
                continue
            r = self._check(neg, reg)
            if r == "unknown":
                raise Inconclusive(f"solver returned unknown on known-finding region {kid}")
            if r == "sat":
                self.known_hits[kid] = Violation(label, self._model_values(), list(self.prefix[: self.pos]), known=kid)
        return ok

    def _model_values(self):
        m = self.solver.model()
        out = {}
        for name, v in self.vars.items():
            val = m.eval(v.t, model_completion=True)
            out[name] = _z3_to_py(val)
        return out

    def note(self, s):
        self.trace.append(s)


MAX_DEPTH = 400


def _z3_to_py(val):
    if z3.is_int_value(val):
        return val.as_long()
    if z3.is_rational_value(val):
        return Fraction(val.numerator_as_long(), val.denominator_as_long())
    if z3.is_true(val):
        return True
    if z3.is_false(val):
        return False
    if z3.is_algebraic_value(val):
        return Fraction(val.approx(20).numerator_as_long(), val.approx(20).denominator_as_long())
    raise Inconclusive(f"cannot convert model value {val}")


class ConcreteEngine:
    """Replays a harness body on concrete values (no proxies, no solver)."""

    symbolic = False

    def __init__(self, values, as_float=True):
        self.values = values
        self.as_float = as_float
        self.violations = []
        self.trace = []
        self.memo = {}
        self.known = ()
        self.derived = {}
        self._c = itertools.count()

    def _get(self, name, kind):
        if name not in self.values:
            raise ReplayMismatch(f"no value for {name}")
        v = self.values[name]
        if kind == "real":
            return float(v) if self.as_float else Fraction(v)
        if kind == "int":
            return int(v)
        return bool(v)

    def real(self, name, lo=None, hi=None):
        v = self._get(name, "real")
        if (lo is not None and v < lo) or (hi is not None and v > hi):
            raise ReplayMismatch(f"{name} out of range")
        return v

    def int(self, name, lo=None, hi=None):
        v = self._get(name, "int")
        if (lo is not None and v < lo) or (hi is not None and v > hi):
            raise ReplayMismatch(f"{name} out of range")
        return v

    def bool(self, name):
        return self._get(name, "bool")

    def choice(self, name, n):
        return self.int(name, 0, n - 1)

    def flag(self, name):
        return self.bool(name)

    def fresh_real(self, hint="r"):
        raise ReplayMismatch("fresh symbol requested in replay")

    fresh_int = fresh_real

    def assume(self, c):
        if not c:
            raise ReplayMismatch("assumption false under concrete values")

    def check(self, prop, label="property", note=""):
        if not prop:
            self.violations.append(Violation(label, dict(self.values), [], note=note))
            return False
        return True

    def note(self, s):
        self.trace.append(s)


class Result:
    def __init__(self):
        self.stats = Stats()
        self.violations = []  # new (outside known regions), not yet replayed
        self.known_hits = {}
        self.inconclusive = []  # reasons
        self.wall_s = 0.0

    @property
    def holds(self):
        return not self.violations and not self.inconclusive


def explore(harness, known=(), max_paths=20000, time_cap=None, seed=0, stop_on_first=True, want_samples=3):
    """Explore all paths of ``harness(eng)``.

    ``harness`` runs real code on proxies obtained from ``eng`` and calls
    ``eng.check(prop, label)`` one or more times.
    """
    res = Result()
    t0 = time.time()
    prefix, flips = [], []
    while True:
        if res.stats.paths >= max_paths:
            res.inconclusive.append(f"path cap {max_paths} reached")
            break
        if time_cap is not None and time.time() - t0 > time_cap:
            res.inconclusive.append(f"time cap {time_cap}s reached after {res.stats.paths} paths")
            break
        eng = Engine(prefix, res.stats, known=known, flippable=flips)
        _set_cur(eng)
        try:
            harness(eng)
            res.stats.paths += 1
            if len(res.stats.samples) < want_samples:
                res.stats.samples.append(
                    {"decisions": "".join("T" if d else "F" for d in eng.prefix[: eng.pos]), "trace": eng.trace[:12]}
                )
        except PathInfeasible:
            res.stats.infeasible_paths += 1
        except Inconclusive as e:
            res.inconclusive.append(str(e))
            break
        except RecursionError as e:
            res.inconclusive.append(f"recursion error {e}")
            break
        except Exception as e:  # noqa: BLE001 - harness bodies catch what the property tolerates
            tb = traceback.format_exc(limit=8)
            res.inconclusive.append(f"unexpected {type(e).__name__}: {e}\n{tb}")
            break
        finally:
            _set_cur(None)
        res.stats.max_depth = max(res.stats.max_depth, eng.pos)
        res.violations.extend(eng.violations)
        for k, v in eng.known_hits.items():
            res.known_hits.setdefault(k, v)
        if eng.violations and stop_on_first:
            break
        # DFS backtrack: flip the deepest flippable decision
        pfx, fl = eng.prefix, eng.flippable
        i = len(pfx) - 1
        while i >= 0 and not fl[i]:
            i -= 1
        if i < 0:
            break
        prefix = pfx[:i] + [not pfx[i]]
        flips = fl[:i] + [False]
    res.wall_s = time.time() - t0
    return res


def replay(harness, values):
    """Run the harness body on concrete values; returns list of violations
    (empty list = does not reproduce) or raises ReplayMismatch."""
    for as_float in (True, False):
        eng = ConcreteEngine(values, as_float=as_float)
        try:
            harness(eng)
        except ReplayMismatch:
            continue
        if eng.violations:
            return eng.violations
    return []
