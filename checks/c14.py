"""C14 - neighbour search returns every atom within range.

Real code executed symbolically: pdb2pqr.cells.Cells.{add_cell, remove_cell,
get_near_cells, assign_cells}; debump protocol site is covered in C04.
"""
from __future__ import annotations

from symx import core
from symx.core import And, Implies, Not, Or
from symx.run import Obligation
from symx import shims
from symx.shims import AssocMap, builtin_shims, patched

from . import fixtures

PROP = "C14"


def _mods():
    from pdb2pqr import cells, structures

    return cells, structures


def _atom(eng, structures, tag):
    a = structures.Atom()
    a.name = tag
    a.x = eng.real(f"{tag}_x")
    a.y = eng.real(f"{tag}_y")
    a.z = eng.real(f"{tag}_z")
    return a


def _d2(a, b):
    dx, dy, dz = a.x - b.x, a.y - b.y, a.z - b.z
    return dx * dx + dy * dy + dz * dz


def _mk_cells(cells, size, symbolic):
    c = cells.Cells(size)
    if symbolic:
        c.cellmap = AssocMap()
    return c


def _shims(eng, cells):
    return builtin_shims(cells, ("int",)) if eng.symbolic else []


# ---------------------------------------------------------------------------
# Q1: key adjacency + grid alignment, unbounded reals
# ---------------------------------------------------------------------------


def h_key(eng, size):
    cells, structures = _mods()
    a, b = _atom(eng, structures, "a"), _atom(eng, structures, "b")
    c = _mk_cells(cells, size, eng.symbolic)
    with patched(*_shims(eng, cells)):
        c.add_cell(a)
        ka = a.cell
        c.add_cell(b)
        kb = b.cell
    for d, (xa, xb) in enumerate(((a.x, b.x), (a.y, b.y), (a.z, b.z))):
        diff = ka[d] - kb[d]
        eng.check(Implies(abs(xa - xb) < size, And(diff <= size, diff >= -size)), f"adjacent-dim{d}", note=f"|Δ|<size but keys differ by more than size in dim {d}")
        eng.check(ka[d] % size == 0, f"aligned-dim{d}", note="cell key is not a multiple of the cell size")
    # determinism: equal coordinates -> equal key
    eng.check(Implies(And(a.x == b.x, a.y == b.y, a.z == b.z), And(ka[0] == kb[0], ka[1] == kb[1], ka[2] == kb[2])), "key-function")


# ---------------------------------------------------------------------------
# Q2: end-to-end on two atoms: add, add, query  (Euclidean oracle)
# ---------------------------------------------------------------------------


def h_query2(eng, size):
    cells, structures = _mods()
    a, b = _atom(eng, structures, "a"), _atom(eng, structures, "b")
    c = _mk_cells(cells, size, eng.symbolic)
    with patched(*_shims(eng, cells)):
        c.add_cell(a)
        c.add_cell(b)
        near_a = c.get_near_cells(a)
        near_b = c.get_near_cells(b)
    within = _d2(a, b) < size * size
    eng.note(f"near_a={[x.name for x in near_a]}")
    eng.check(Implies(within, near_a.count(b) == 1), "a-sees-b", note=f"b within {size} of a but returned {near_a.count(b)} times")
    eng.check(Implies(within, near_b.count(a) == 1), "b-sees-a", note=f"a within {size} of b but returned {near_b.count(a)} times")
    eng.check(a not in near_a and b not in near_b, "no-self")
    eng.check(near_a.count(b) <= 1 and near_b.count(a) <= 1, "no-duplicates")


# ---------------------------------------------------------------------------
# Q3: histories: assign_cells on 3 atoms, then k symbolic ops, then query all
# ---------------------------------------------------------------------------

OPS = ("add", "remove", "move", "readd")


def h_history(eng, size, ops, natoms=3, stale=False, query_first=False):
    cells, structures = _mods()

    class Bio:
        pass

    atoms = [_atom(eng, structures, f"p{i}") for i in range(natoms)]
    bio = Bio()
    bio.atoms = atoms[:-1]  # last atom starts outside the map
    # stale: the outside atom still carries the key it had in an earlier map of another cell size (pdb2pqr
    # builds a 2 A map and later a 5 A map over the same atom objects); it is then ADDED to the map under test
    atoms[-1].cell = (15, -15, 30) if stale else None
    present = {id(x): True for x in bio.atoms}
    present[id(atoms[-1])] = False
    c = _mk_cells(cells, size, eng.symbolic)
    log = []
    with patched(*_shims(eng, cells)):
        c.assign_cells(bio)
        if query_first:
            # queries are interleaved with the changes in real runs: anything a query remembers must not outlive a change
            for q in bio.atoms:
                c.get_near_cells(q)
        for k, (op, who) in enumerate(ops):
            at = atoms[who]
            log.append(f"{op}({at.name})")
            if op == "add":
                # protocol precondition of the callers: add only atoms that are not in the map
                if present[id(at)]:
                    continue
                c.add_cell(at)
                present[id(at)] = True
            elif op == "remove":
                c.remove_cell(at)  # removing an absent atom (cell None) must be a no-op
                present[id(at)] = False
            elif op == "move":
                # the move protocol used throughout pdb2pqr: remove, write, add
                c.remove_cell(at)
                at.x = eng.real(f"mv{k}_x")
                at.y = eng.real(f"mv{k}_y")
                at.z = eng.real(f"mv{k}_z")
                c.add_cell(at)
                present[id(at)] = True
            elif op == "readd":
                # remove followed by add at unchanged coordinates
                c.remove_cell(at)
                c.add_cell(at)
                present[id(at)] = True
        eng.note(" ".join(log))
        for q in atoms:
            if not present[id(q)]:
                eng.check(q.cell is None, "absent-has-no-cell")
                continue
            near = c.get_near_cells(q)
            for o in atoms:
                if o is q:
                    eng.check(q not in near, "no-self")
                    continue
                n = near.count(o)
                if present[id(o)]:
                    eng.check(Implies(_d2(q, o) < size * size, n == 1), "sees-neighbour", note=f"after {' '.join(log)}: {o.name} within {size} of {q.name} returned {n} times")
                    eng.check(n <= 1, "no-duplicates", note=f"after {' '.join(log)}: {o.name} returned {n} times")
                else:
                    eng.check(n == 0, "removed-not-returned", note=f"after {' '.join(log)}: removed atom {o.name} still returned")


# ---------------------------------------------------------------------------
# Q4: the debump call site: real Debump.set_dihedral_angle with the rotation
# result abstracted to arbitrary new coordinates -> cell map still consistent
# ---------------------------------------------------------------------------


def _expected_key(cells_mod, size, atom, structures):
    """Key the real add_cell assigns to these coordinates (fresh map)."""
    probe = structures.Atom()
    probe.x, probe.y, probe.z = atom.x, atom.y, atom.z
    c = cells_mod.Cells(size)
    c.add_cell(probe)
    return probe.cell


def h_debump_site(eng, resname, anglenum, size):
    from pdb2pqr import debump

    cells, structures = _mods()
    bm, _ = fixtures.prepared(fixtures.peptide_lines(["GLY", resname, "GLY"]))
    res = bm.residues[1]
    bm.set_reference_distance()
    res.dihedrals = [0.0] * len(res.reference.dihedrals)
    names = res.reference.dihedrals[anglenum].split()
    moved = res.get_moveable_names(names[2])
    for nm in moved:
        a = res.get_atom(nm)
        a.x, a.y, a.z = eng.real(f"{nm}_x0"), eng.real(f"{nm}_y0"), eng.real(f"{nm}_z0")
    deb = debump.Debump(bm)
    c = _mk_cells(cells, size, eng.symbolic)

    class Bio:
        # the moved atoms plus one static atom (the map content does not matter to the protocol)
        atoms = [res.get_atom(nm) for nm in moved] + [res.get_atom("CA")]

    fresh = {nm: [eng.real(f"{nm}_x1"), eng.real(f"{nm}_y1"), eng.real(f"{nm}_z1")] for nm in moved}
    pivot = res.get_atom(names[1]).coords

    class Quat:
        @staticmethod
        def qchichange(initcoords, movecoords, diff):
            # rotation abstracted: arbitrary new positions (relative to the pivot, as the caller expects)
            return [[fresh[nm][k] - pivot[k] for k in range(3)] for nm in moved]

    from pdb2pqr import utilities

    real_dihedral = utilities.dihedral
    np_shim = [(utilities, "np", shims.NP), (utilities, "dihedral", lambda *a: 0.0), (debump, "int", core.sym_int_t)] if eng.symbolic else []
    with patched(*_shims(eng, cells), (debump, "quat", Quat), *np_shim):
        c.assign_cells(Bio)
        deb.cells = c
        deb.set_dihedral_angle(res, anglenum, eng.real("angle"))
        for a in Bio.atoms:
            want = _expected_key(cells, size, a, structures)
            got = a.cell
            eng.check(got is not None, "has-cell")
            if got is None:
                continue
            eng.check(And(*[core.same(got[k], want[k]) for k in range(3)]), "cell-matches-coordinates", note=f"{a.name}: cell key is stale after set_dihedral_angle (atom would be missed by neighbour queries)")
            # listed exactly once, under its own key
            total = 0
            for k, lst in c.cellmap.items():
                n = lst.count(a)
                total += n
                if n:
                    eng.check(And(*[core.same(k[d], got[d]) for d in range(3)]), "listed-under-own-key", note=f"{a.name} listed under a key that is not atom.cell")
            eng.check(total == 1, "listed-once", note=f"{a.name} listed {total} times in the cell map")
    for nm in moved:
        a = res.get_atom(nm)
        eng.check(And(core.same(a.x, fresh[nm][0]), core.same(a.y, fresh[nm][1]), core.same(a.z, fresh[nm][2])), "moved-to-rotated-position")


# ---------------------------------------------------------------------------
# Q4b: the whole debump scan (Debump.debump_residue): whatever way the scan ends, every atom is binned
# where it is.  The map is a recorder of the coordinates at registration time (what the key is a function of:
# key lemma Q1), so no forking happens inside the scan; keys are only computed, by the real add_cell, for
# an atom whose registered and current coordinates are not the same terms.
# ---------------------------------------------------------------------------


class _CoordLog:
    """cells stand-in: which atom objects are in the map, and with which coordinates they were registered"""

    def __init__(self):
        self.at = {}
        self.atoms = {}

    def assign_cells(self, bio):
        for a in bio.atoms:
            self.add_cell(a)

    def add_cell(self, atom):
        self.at[id(atom)] = (atom.x, atom.y, atom.z)
        self.atoms[id(atom)] = atom

    def remove_cell(self, atom):
        self.at.pop(id(atom), None)
        self.atoms.pop(id(atom), None)

    def get_near_cells(self, atom):
        return []


def _same_term(a, b):
    if core.is_sym(a) and core.is_sym(b):
        return a.t.eq(b.t)
    if core.is_sym(a) or core.is_sym(b):
        return False
    return a == b


def _check_binned_where_it_is(eng, cells, structures, log, atoms, size, what, label="cell-matches-coordinates"):
    for a in atoms:
        reg = log.at.get(id(a))
        eng.check(reg is not None, "has-cell" if label == "cell-matches-coordinates" else label, note=f"{a.name} is not in the cell map after {what}")
        if reg is None:
            continue
        cur = (a.x, a.y, a.z)
        if all(_same_term(r, c) for r, c in zip(reg, cur)):
            eng.check(True, label)
            continue
        with patched(*_shims(eng, cells)):
            probe = structures.Atom()
            probe.x, probe.y, probe.z = reg
            k_reg = _expected_key(cells, size, probe, structures)
            k_cur = _expected_key(cells, size, a, structures)
        eng.check(And(*[core.same(k_reg[d], k_cur[d]) for d in range(3)]), label, note=f"{a.name}: binned at {tuple(str(v) for v in reg)} but located at {tuple(str(v) for v in cur)} after {what} (neighbour queries look in the wrong cell)")


def h_debump_scan(eng, resname, steps, rounds, size=2):
    from pdb2pqr import debump, utilities

    cells, structures = _mods()
    bm, _ = fixtures.prepared(fixtures.peptide_lines(["GLY", resname, "GLY"]))
    res = bm.residues[1]
    bm.set_reference_distance()
    res.dihedrals = [0.0] * len(res.reference.dihedrals)
    anglenum = 0
    names = res.reference.dihedrals[anglenum].split()
    moved = res.get_moveable_names(names[2])
    for nm in moved:
        a = res.get_atom(nm)
        a.x, a.y, a.z = eng.real(f"{nm}_x0"), eng.real(f"{nm}_y0"), eng.real(f"{nm}_z0")
    deb = debump.Debump(bm)
    log = _CoordLog()

    class Bio:
        atoms = list(res.atoms)

    log.assign_cells(Bio)
    deb.cells = log
    calls = {"rot": 0, "score": 0, "conf": 0, "pick": 0}
    pivot = res.get_atom(names[1]).coords

    class Quat:
        @staticmethod
        def qchichange(initcoords, movecoords, diff):
            calls["rot"] += 1
            k = calls["rot"]
            # rotation abstracted: arbitrary new positions (relative to the pivot, as the caller expects)
            return [[eng.real(f"{nm}_{ax}_rot{k}") - pivot[d] for d, ax in enumerate("xyz")] for nm in moved]

    def score(self, residue, num):
        calls["score"] += 1
        v = eng.real(f"score{calls['score']}")
        eng.assume(v >= 0)
        return v

    def conflicts(self, residue, write_conflict_info=False):
        calls["conf"] += 1
        return [moved[0]] if eng.flag(f"conflicts{calls['conf']}") else []

    def pick(conflict_names, oldnum):
        calls["pick"] += 1
        return anglenum if calls["pick"] <= rounds else -1

    res.pick_dihedral_angle = pick
    np_shim = [(utilities, "np", shims.NP), (debump, "int", core.sym_int_t), (debump, "abs", core.sym_abs)] if eng.symbolic else []
    with patched(
        (debump, "quat", Quat),
        (utilities, "dihedral", lambda *a: 0.0),
        (debump.Debump, "score_dihedral_angle", score),
        (debump.Debump, "find_residue_conflicts", conflicts),
        (debump, "DEBUMP_ANGLE_STEPS", steps),
        (debump, "DEBUMP_ANGLE_TEST_COUNT", rounds),
        *np_shim,
    ):
        ok = deb.debump_residue(res, [moved[0]])
    eng.note(f"debump_residue -> {ok}; {calls}")
    _check_binned_where_it_is(eng, cells, structures, log, Bio.atoms, size, f"debump_residue (returned {ok})")


# ---------------------------------------------------------------------------
# Q4c: the water / alcohol placement call sites (hydrogens/structures.py Water.finalize / complete,
# Alcoholic.finalize / complete and the optimize.py helpers they use).  Real code on a real SER + HOH
# structure; the rotation about a bond is abstracted (periodic: a full turn restores the terms, any other
# cumulative angle gives arbitrary symbolic positions), which iteration of a scan wins and whether there is
# a neighbour are symbolic selectors.  Obligation: when the call returns every atom of the residue is in the
# map, binned where it is, and nothing else of that residue is in the map.
# ---------------------------------------------------------------------------


class _Turns:
    """periodic abstraction of Residue.rotate_tetrahedral's quat.qchichange"""

    def __init__(self, eng):
        self.eng = eng
        self.state = {}
        self.memo = {}
        self.serial = 0
        self.n20 = 0
        self.ctx = None

    def wrap(self, real_rotate):
        turns = self

        def rotate(atom1, atom2, angle):
            turns.ctx = (atom1, atom2, [a for a in atom2.bonds if a != atom1])
            if angle == 20.0:
                turns.n20 += 1
            try:
                return real_rotate(atom1, atom2, angle)
            finally:
                turns.ctx = None

        return rotate

    def qchichange(self, initcoords, movecoords, angle):
        atom1, atom2, movers = self.ctx
        if len(movers) != len(movecoords):
            raise core.Inconclusive("rotate_tetrahedral moved another set of atoms than atom2's other bond partners")
        out = []
        for a in movers:
            cur = (a.x, a.y, a.z)
            st = self.state.get(id(a))
            axis = (id(atom1), id(atom2))
            if st is None or st["axis"] != axis or not all(_same_term(c, l) for c, l in zip(cur, st["last"])):
                self.serial += 1
                st = self.state[id(a)] = {"axis": axis, "init": cur, "cum": 0.0, "epoch": self.serial}
            st["cum"] = (st["cum"] + angle) % 360.0
            if st["cum"] == 0.0:
                new = st["init"]
            else:
                key = (id(a), st["epoch"], st["cum"])
                if key not in self.memo:
                    tag = f"{a.name}_e{st['epoch']}_at{int(st['cum'])}"
                    self.memo[key] = tuple(self.eng.real(f"{tag}_{ax}") for ax in "xyz")
                new = self.memo[key]
            st["last"] = new
            out.append(new)
        # the caller adds atom1's coordinates back; hand over the absolute target and let it cancel exactly
        return [_Rel(n, atom1) for n in out]

    def settle(self):
        """positions as the caller stored them (new - atom1 + atom1): remember them as 'last'"""


class _Rel:
    """newcoords[i][k] + atom1.<k>  ==  the absolute coordinate (exact cancellation of the caller's shift)"""

    def __init__(self, absolute, atom1):
        self.abs = absolute

    def __getitem__(self, k):
        return _Shifted(self.abs[k])


class _Shifted:
    def __init__(self, v):
        self.v = v

    def __add__(self, other):
        return self.v

    __radd__ = __add__


def _site_setup(kind, with_routines=False):
    from pdb2pqr import debump, hydrogens

    middle = {"alcohol": "SER", "flip-ASN": "ASN", "flip-HIS": "HIS", "carboxylic": "ASP"}.get(kind, "ALA")
    lines = [ln for ln in fixtures.peptide_lines(["ALA", middle, "ALA"]) if not ln.startswith("END")]
    lines.append(fixtures.atom_line(900, "O", "HOH", "W", 50, 3.0, 8.0, 2.0, record="HETATM"))
    bm, _ = fixtures.prepared(lines)
    if bm.num_missing_heavy:
        bm.repair_heavy()
    bm.add_hydrogens()
    deb = debump.Debump(bm)
    routines = hydrogens.HydrogenRoutines(deb, hydrogens.create_handler())
    routines.set_optimizeable_hydrogens()
    bm.hold_residues(None)
    routines.initialize_full_optimization()
    want = {"alcohol": "Alcoholic", "flip-ASN": "Flip", "flip-HIS": "Flip", "carboxylic": "Carboxylic"}.get(kind, "Water")
    obj = [o for o in routines.optlist if type(o).__name__ == want][0]
    if with_routines:
        return bm, deb, obj, routines
    return bm, deb, obj


def h_hydrogen_site(eng, kind, pre, then_complete, undo=False, attempt=False, prop="C14"):
    """kind: water | alcohol; pre: names of atoms placed (and binned, as the try_* helpers do) before finalize()"""
    from pdb2pqr import residue as residue_mod
    from pdb2pqr import utilities
    from pdb2pqr.hydrogens import optimize
    from pdb2pqr.hydrogens import structures as hs

    cells, structures = _mods()
    bm, deb, obj = _site_setup(kind)
    res = obj.residue
    centre = obj.atomlist[0]
    log = _CoordLog()
    log.assign_cells(bm)
    deb.cells = log
    turns = _Turns(eng)
    neighbour = [a for a in bm.atoms if a.residue is not res and a.name == "CA"][0]
    lazy = {}

    def sel(name, n=None):
        """symbolic selector, created (and forked on) only when the code under test first depends on it"""
        if name not in lazy:
            lazy[name] = eng.flag(name) if n is None else eng.choice(name, n)
        return lazy[name]

    calls = {"closest": 0, "dist": 0, "energy": 0, "queries": 0}

    used = {}

    def scan_call(kind, per_iter):
        """does this stub call belong to an iteration of a 20-degree scan (per_iter calls of its kind per iteration)?"""
        if turns.n20 == 0:
            return False
        key = (kind, turns.n20)
        used[key] = used.get(key, 0) + 1
        return used[key] <= per_iter

    def winning():
        b = sel("winning_iteration", 19)  # 18: no iteration beats the start
        return b < 18 and (turns.n20 - 1) % 18 == b

    def query_from(atom, what):
        """a neighbour query starts from the cell recorded for the atom: it must be the cell the atom is in"""
        calls["queries"] += 1
        _check_binned_where_it_is(eng, cells, structures, log, [atom], 5, f"{what} (query {calls['queries']})", label="query-from-current-cell")

    def closest(atom):
        calls["closest"] += 1
        query_from(atom, f"get_closest_atom({atom.name}) during {type(obj).__name__}.finalize")
        if scan_call("closest", 1):
            return neighbour if sel("winning_iteration", 19) < 18 else None
        return neighbour if sel(f"neighbour_found_{min(calls['closest'], 3)}") else None

    def distance(a, b):
        calls["dist"] += 1
        if scan_call("distance", 1):
            return 2.0 if winning() else 1.0
        # two-position comparison: dist1, then the second position
        calls["pair"] = calls.get("pair", 0) + 1
        return 1.0 if calls["pair"] % 2 else (1.5 if sel("second_position_better") else 0.5)

    phase = {"attempt": False, "n": 0, "hb": 0}

    def energy(a, b):
        if phase["attempt"]:
            phase["n"] += 1
            return 0.0 if phase["n"] == 1 else (-1.0 if sel("attempt_second_position_better") else 1.0)
        calls["energy"] += 1
        if scan_call("energy", 2):
            return -1.0 if winning() else 0.0
        # two-position comparison (two calls per position)
        return 0.0 if calls["energy"] <= 2 else (-1.0 if sel("second_position_better") else 1.0)

    def near_cells(atom):
        query_from(atom, f"get_near_cells({atom.name}) during {type(obj).__name__}.finalize")
        return [neighbour]

    log.get_near_cells = near_cells

    class Util:
        def __getattr__(self, name):
            return getattr(utilities, name)

    fake_util = Util()
    fake_util.distance = distance
    opt_util = Util()
    opt_util.distance = lambda a, b: 1.0 if sel("first_rotated_position_free") else 0.0  # get_position_with_three_bonds' occupancy test

    class Quat:
        qchichange = staticmethod(turns.qchichange)

        def __getattr__(self, name):
            from pdb2pqr import quatfit

            return getattr(quatfit, name)

    real_rotate = res.rotate_tetrahedral
    res.rotate_tetrahedral = turns.wrap(real_rotate)
    deb.get_closest_atom = closest
    with patched((residue_mod, "quat", Quat()), (hs, "util", fake_util), (optimize, "util", opt_util), (optimize.Optimize, "get_pair_energy", staticmethod(energy))):
        # pre-placed atoms: created and binned the way make_atom_with_no_bonds / try_* do it
        for k, nm in enumerate(pre):
            pos = [centre.x + (1.0 if k == 0 else -0.3), centre.y + (0.0 if k == 0 else 0.9), centre.z + 0.1 * k]
            res.create_atom(nm, pos)
            na = res.get_atom(nm)
            log.add_cell(na)
            if na not in centre.bonds:
                centre.bonds.append(na)
            if centre not in na.bonds:
                na.bonds.append(centre)
        candidates = []
        real_two = obj.get_positions_with_two_bonds

        def two_bonds(atom):
            l1, l2 = real_two(atom)
            candidates.extend([tuple(l1), tuple(l2)])
            return l1, l2

        obj.get_positions_with_two_bonds = two_bonds
        if attempt:
            # a real donor attempt towards a backbone oxygen before the residue is finalised: whether each trial position
            # makes a hydrogen bond and which one is better are selectors
            acceptor = [a for a in bm.atoms if a.residue is not res and a.name == "O" and a.hacceptor][0]

            def is_hbond(self, donor, acc):
                phase["hb"] += 1
                return bool(sel(f"attempt_position_{phase['hb']}_makes_a_hydrogen_bond"))

            phase["attempt"] = True
            with patched((optimize.Optimize, "is_hbond", is_hbond)):
                res.fixed = 0
                got = obj.try_donor(centre, acceptor)
            phase["attempt"] = False
            eng.note(f"try_donor -> {got}")
        if undo:
            # try_both: the donor side succeeds (hydrogen created and binned, as every try_* helper does), the acceptor
            # side fails, so the hydrogen is taken back
            hname = obj.hname if kind == "alcohol" else ("H2" if res.has_atom("H1") else "H1")

            def donor_succeeds(donor, acc):
                res.create_atom(hname, [centre.x + 0.6, centre.y - 0.7, centre.z + 0.2])
                h = res.get_atom(hname)
                log.add_cell(h)
                if h not in centre.bonds:
                    centre.bonds.append(h)
                if centre not in h.bonds:
                    h.bonds.append(centre)
                return True

            class OtherSide:
                @staticmethod
                def try_acceptor(acc, donor):
                    return False

            obj.try_donor = donor_succeeds
            neighbour.residue.fixed = 0
            ok = obj.try_both(centre, neighbour, OtherSide)
            eng.check(not ok, "try-both-reports-failure")
            del obj.try_donor
        obj.finalize()
        what = ("try_both() undone; " if undo else "") + "finalize()"
        if then_complete:
            obj.complete()
            what = "finalize(); complete()"
    eng.note(f"{kind} {pre} -> atoms {[a.name for a in res.atoms]}; scans {turns.n20 // 18}; {calls}")
    if prop == "C05":
        # the hydrogen built on an oxygen that already had two bonds sits at one of the two free tetrahedral positions
        if candidates:
            new_h = [a for a in res.atoms if a.is_hydrogen and a.bonds and a.bonds[0] is centre and a.name not in pre]
            for h in new_h:
                here = (h.x, h.y, h.z)
                at = [And(*[core.same(here[k], c[k]) for k in range(3)]) for c in candidates]
                eng.check(core.Or(*at), "hydrogen-at-a-free-tetrahedral-position", note=f"{res.name} {h.name} after {what}: at {tuple(str(v) for v in here)}, the free positions are {[tuple(str(v) for v in c) for c in candidates]}")
        return
    _check_binned_where_it_is(eng, cells, structures, log, list(res.atoms), 5, f"{type(obj).__name__}.{what} on {res.name} with {list(pre) or 'no'} atoms placed before")
    mine = {id(a) for a in res.atoms}
    ghosts = sorted(a.name for i, a in log.atoms.items() if a.residue is res and i not in mine)
    eng.check(not ghosts, "deleted-atoms-leave-the-cell-map", note=f"{res.name}: atoms {ghosts} were deleted from the residue but are still listed in the cell map after {what}")


# ---------------------------------------------------------------------------
# Q4c': the carboxylic-acid optimisation (hydrogens/structures.py Carboxylic: four candidate protons, eliminated by
# try_acceptor / try_donor / fix / finalize).  Real code on a real ASH / GLH residue; which event happens, which
# pair is judged a hydrogen bond, which candidate is closer / better are symbolic selectors.  prop="C14": the cell
# list holds exactly the residue's atoms afterwards; prop="C03": the residue ends with the atom set of its topology.
# ---------------------------------------------------------------------------


def _carboxylic_setup(resname, stretch=0):
    from pdb2pqr import debump, hydrogens

    base = {"ASH": "ASP", "GLH": "GLU"}[resname]
    lines = [ln for ln in fixtures.peptide_lines(["ALA", base, "ALA"]) if not ln.startswith("END")]
    lines = [(ln[:17] + resname + ln[20:]) if ln.startswith("ATOM") and int(ln[22:26]) == 2 else ln for ln in lines]
    if stretch:
        # one C-O bond 0.1 A longer than the other: the optimisation then offers candidates on that oxygen only
        ref = fixtures.pristine_definition().map[base].map
        ox = ("OD1", "OD2")[stretch - 1] if base == "ASP" else ("OE1", "OE2")[stretch - 1]
        par = ref[[b for b in ref[ox].bonds if not b.startswith("H")][0]]
        v = [ref[ox].x - par.x, ref[ox].y - par.y, ref[ox].z - par.z]
        L = sum(x * x for x in v) ** 0.5
        out = []
        for ln in lines:
            if ln.startswith("ATOM") and int(ln[22:26]) == 2 and ln[12:16].strip() == ox:
                x, y, z = (float(ln[30:38]) + 0.1 * v[0] / L, float(ln[38:46]) + 0.1 * v[1] / L, float(ln[46:54]) + 0.1 * v[2] / L)
                ln = ln[:30] + f"{x:8.3f}{y:8.3f}{z:8.3f}" + ln[54:]
            out.append(ln)
        lines = out
    lines.append(fixtures.atom_line(900, "O", "HOH", "W", 50, 3.0, 8.0, 2.0, record="HETATM"))
    bm, _ = fixtures.prepared(lines)
    if bm.num_missing_heavy:
        bm.repair_heavy()
    bm.add_hydrogens()
    deb = debump.Debump(bm)
    routines = hydrogens.HydrogenRoutines(deb, hydrogens.create_handler())
    routines.set_optimizeable_hydrogens()
    bm.hold_residues(None)
    routines.initialize_full_optimization()
    obj = [o for o in routines.optlist if type(o).__name__ == "Carboxylic"][0]
    return bm, deb, obj, routines


def h_carboxylic_site(eng, resname, prop="C14"):
    from pdb2pqr import utilities
    from pdb2pqr.hydrogens import optimize
    from pdb2pqr.hydrogens import structures as hs

    cells, structures = _mods()
    stretch = eng.choice("longer_c_o_bond", 3)  # 0: equal bonds (candidates on both oxygens), 1 / 2: the first / second is 0.1 A longer
    bm, deb, obj, routines = _carboxylic_setup(resname, stretch)
    res = obj.residue
    log = _CoordLog()
    log.assign_cells(bm)
    partner = [a for a in bm.atoms if a.residue is not res and a.residue.name in ("WAT", "HOH") and a.name == "O"][0]
    log.get_near_cells = lambda atom: [partner]
    deb.cells = log
    lazy = {}

    def sel(name, n=None):
        if name not in lazy:
            lazy[name] = eng.flag(name) if n is None else eng.choice(name, n)
        return lazy[name]

    label = {id(h): h.name for h in obj.hlist}
    step = {"k": 0, "dist": 0}

    def h_ok(h):
        return sel(f"step{step['k']}_{label.get(id(h), h.name)}_points_at_partner")

    def is_hbond(self, donor, acc):
        return any(bool(h_ok(h)) for h in donor.bonds if h.is_hydrogen)

    def angle(a, d, h):
        return 0.0 if h_ok(h) else 180.0

    def carbox_hbond(self, donor, acc):
        return bool(sel(f"step{step['k']}_partner_donates_to_{acc.name}"))

    def distance(a, b):
        step["dist"] += 1
        if step["dist"] % 2:
            return 1.0
        return 0.5 if sel(f"step{step['k']}_second_candidate_closer") else 1.5

    def energy(a, b):
        names = [x.name for x in obj.atomlist]
        best = names[sel("finalize_prefers_oxygen", len(names))] if len(names) > 1 else names[0]
        return -1.0 if a.name == best or b.name == best else 0.0

    class Util:
        def __getattr__(self, name):
            return getattr(utilities, name)

    u = Util()
    u.distance = distance
    nevents = sel("events", 3)
    history = []
    with patched(
        (hs, "util", u),
        (optimize.Optimize, "is_hbond", is_hbond),
        (optimize.Optimize, "get_hbond_angle", staticmethod(angle)),
        (optimize.Optimize, "get_pair_energy", staticmethod(energy)),
        (hs.Carboxylic, "is_carboxylic_hbond", carbox_hbond),
    ):
        try:
            for k in range(nevents):
                step["k"] = k
                if res.fixed:
                    break  # optimize_hydrogens skips fixed residues
                ox = obj.atomlist[sel(f"step{k}_oxygen", len(obj.atomlist))] if len(obj.atomlist) > 1 else obj.atomlist[0]
                if sel(f"step{k}_is_donor_attempt"):
                    history.append(f"try_donor({ox.name})")
                    obj.try_donor(ox, partner)
                else:
                    history.append(f"try_acceptor({ox.name})")
                    obj.try_acceptor(ox, partner)
            history.append("complete")
            obj.complete()
            if prop != "C14":
                # HydrogenRoutines.cleanup() is the last step that touches hydrogens in main.non_trivial: it deletes a spare
                # acid proton without un-binning it, but no neighbour query can follow it, so it is not part of C14's claim
                routines.cleanup()
        except (UnboundLocalError, AttributeError, KeyError, ValueError) as e:
            eng.check(True, "loud-failure-tolerated", note=f"{history}: {type(e).__name__}: {str(e)[:80]}")
            return
    eng.note(f"{resname}: {' '.join(history)} -> hydrogens {[a.name for a in res.atoms if a.is_hydrogen and a.bonds and a.bonds[0].name.startswith('O')]}")
    what = f"{resname}: {' '.join(history)}"
    if prop == "C14":
        _check_binned_where_it_is(eng, cells, structures, log, list(res.atoms), 5, what)
        mine = {id(a) for a in res.atoms}
        ghosts = sorted(a.name for i, a in log.atoms.items() if a.residue is res and i not in mine)
        eng.check(not ghosts, "deleted-atoms-leave-the-cell-map", note=f"{what}: atoms {ghosts} were deleted from the residue but are still listed in the cell map")
    else:
        ref = set(res.reference.map) - {"C-1", "N+1"}
        names = [a.name for a in res.atoms]
        extra = sorted(n for n in names if n not in ref)
        acid_h = sorted(n for n in names if n.startswith("H") and res.get_atom(n).bonds and res.get_atom(n).bonds[0].name.startswith("O") and res.get_atom(n).bonds[0].name != "O")
        eng.check(not extra, "no-placeholder-atoms-left", note=f"{what}: atoms {extra} are not part of the residue's topology (candidate protons of the optimisation left behind)")
        eng.check(len(acid_h) == 1, "exactly-one-acid-proton", note=f"{what}: the protonated acid ends with protons {acid_h}")
        eng.check(len(names) == len(set(names)), "no-duplicate-names")


# ---------------------------------------------------------------------------
# Q4d: the hydrogen-bond partner search (HydrogenRoutines.optimize_hydrogens): its result after the caller's
# own distance filter must not depend on what the cell list returns BEYOND its guarantee (atoms closer than
# the cell size are always returned - key / query lemmas; farther ones may or may not be).  Relational check:
# two runs with the same symbolic distance, the far atom returned in one and withheld in the other.
# ---------------------------------------------------------------------------


class _StopAfterDetection(Exception):
    pass


def h_partner_search(eng, kind):
    from pdb2pqr import hydrogens as hyd

    bm, deb, obj, routines = _site_setup(kind, with_routines=True)
    cellsize = deb.cells.cellsize  # whatever the real initialisation configured
    # the partner sits next to ANY one atom of the optimisable group (selector): every atom of the group is a query point
    centre = obj.atomlist[eng.choice("group_atom_next_to_the_partner", len(obj.atomlist))]
    cands = [a for a in bm.atoms if a.residue is not obj.residue and a.name == "O" and (a.hacceptor or a.hdonor)]
    other = ([a for a in cands if a.hacceptor and a.hdonor] or cands)[0]  # a water oxygen (donor and acceptor) where there is one
    d = eng.real("distance")
    eng.assume(d > 0)
    counts = []

    class Util:
        def __getattr__(self, name):
            from pdb2pqr import utilities

            return getattr(utilities, name)

    u = Util()
    u.distance = lambda a, b: d

    def stop(*a, **k):
        raise _StopAfterDetection()

    u.analyze_connectivity = stop
    for withheld in (False, True):

        class CellsStub:
            def get_near_cells(self, atom):
                if atom is not centre:
                    return []
                if d < cellsize:
                    return [other]  # guaranteed by the cell list
                return [] if withheld else [other]

        deb.cells = CellsStub()
        for o in routines.optlist:
            o.hbonds = []
            o.finalize = lambda: None
        with patched((hyd, "util", u)):
            try:
                routines.optimize_hydrogens()
            except _StopAfterDetection:
                pass
        counts.append(len(obj.hbonds))
    eng.derived["cell_size"] = cellsize
    if (centre.hdonor and other.hacceptor) or (centre.hacceptor and other.hdonor):
        eng.check(Implies(d < 2.5, counts[0] >= 1), "partner-next-to-any-group-atom-is-found", note=f"a donor/acceptor {d} A from {centre.name} (atom {obj.atomlist.index(centre) + 1} of {len(obj.atomlist)} of the group) and returned by the cell list for that atom is not among the potential partners ({counts[0]} found)")
    eng.check(counts[0] == counts[1], "partner-search-independent-of-atoms-beyond-the-cell-size", note=f"cell size {cellsize}: at distance {d} the partner is found only if the cell list happens to return it ({counts[0]} vs {counts[1]} potential bonds): the caller's distance cutoff exceeds the cell size")


def h_bump_search(eng, heavy_query, heavy_other):
    """the same relational obligation for Debump.find_nearby_atoms with the cell size Debump itself configures"""
    from pdb2pqr import debump

    bm, _ = fixtures.prepared(fixtures.peptide_lines(["ALA", "SER", "ALA"]))
    bm.add_hydrogens()
    deb = debump.Debump(bm)
    deb.cells = None
    real_cells = debump.cells.Cells
    made = []

    class Rec(real_cells):
        def __init__(self, size):
            made.append(size)
            real_cells.__init__(self, size)

    with patched((debump.cells, "Cells", Rec)):
        try:
            deb.debump_biomolecule()  # lets the real code choose its cell size
        except Exception:  # noqa: BLE001 - only the configuration is of interest here
            pass
    eng.check(len(made) >= 1, "debump-builds-a-cell-list")
    if not made:
        return
    cellsize = made[0]
    q = bm.residues[0].get_atom("CB" if heavy_query else "HA")
    o = bm.residues[2].get_atom("CB" if heavy_other else "HA")
    d = eng.real("distance")
    eng.assume(d > 0)
    out = []

    class Util:
        def __getattr__(self, name):
            from pdb2pqr import utilities

            return getattr(utilities, name)

    u = Util()
    u.distance = lambda a, b: d
    for withheld in (False, True):

        class CellsStub:
            def get_near_cells(self, atom):
                if d < cellsize:
                    return [o]
                return [] if withheld else [o]

        deb.cells = CellsStub()
        with patched((debump, "util", u)):
            out.append(len(deb.find_nearby_atoms(q)))
    eng.check(out[0] == out[1], "bump-search-independent-of-atoms-beyond-the-cell-size", note=f"cell size {cellsize}: at distance {d} the clash partner is reported only if the cell list happens to return it ({out[0]} vs {out[1]})")


def h_map_rebuilt(eng):
    """whenever a pass (re)builds the cell list - debump pass, hydrogen optimisation set-up - after atoms were
    deleted / re-created (the PROPKA flow: debump, remove hydrogens, titrate, add hydrogens, debump again), the
    list holds exactly the atoms that exist now, each once"""
    from pdb2pqr import debump, hydrogens

    # the structure also holds a water and a hetero group (ion / cofactor): every atom of the structure is a possible
    # neighbour, whatever residue class it belongs to
    lines = [ln for ln in fixtures.peptide_lines(["ALA", "SER", "LYS", "ALA"]) if not ln.startswith("END")]
    lines += [fixtures.atom_line(900, "O", "HOH", "A", 90, 3.0, 7.0, 2.0, record="HETATM"), fixtures.atom_line(901, "S", "SO4", "A", 91, -4.0, 7.5, 1.0, record="HETATM"), fixtures.atom_line(902, "O1", "SO4", "A", 91, -4.0, 8.9, 1.0, record="HETATM"), "END"]
    bm, _ = fixtures.prepared(lines)
    bm.add_hydrogens()
    deb = debump.Debump(bm)
    first = eng.choice("first_pass", 2)
    between = eng.choice("between_passes", 3)
    second = eng.choice("second_pass", 2)
    routines = hydrogens.HydrogenRoutines(deb, hydrogens.create_handler())

    def run(which):
        if which == 0:
            deb.debump_biomolecule()
        else:
            routines.set_optimizeable_hydrogens()
            bm.hold_residues(None)
            routines.initialize_full_optimization()

    run(first)
    if between == 1:
        bm.remove_hydrogens()
        bm.add_hydrogens()
    elif between == 2:
        bm.remove_hydrogens()
    run(second)
    live = {id(a): a for a in bm.atoms}
    listed = {}
    for key, lst in deb.cells.cellmap.items():
        for a in lst:
            listed[id(a)] = listed.get(id(a), 0) + 1
    ghosts = sorted({a.name for lst in deb.cells.cellmap.values() for a in lst if id(a) not in live})
    what = f"{['debump pass', 'optimisation set-up'][first]}, {['nothing', 'hydrogens removed and rebuilt', 'hydrogens removed'][between]}, {['debump pass', 'optimisation set-up'][second]}"
    eng.check(not ghosts, "rebuilt-map-holds-no-deleted-atoms", note=f"{what}: atoms that no longer exist are still in the cell list: {ghosts[:6]}")
    eng.check(all(listed.get(i, 0) == 1 for i in live), "rebuilt-map-lists-every-atom-once", note=f"{what}: live atoms listed {sorted(set(listed.get(i, 0) for i in live))} times")


# ---------------------------------------------------------------------------
# Q5: the flip call sites (hydrogens/structures.py Flip.__init__ / fix_flip / finalize / complete)
# ---------------------------------------------------------------------------


class _IdLog:
    """cells stand-in that tracks which atom OBJECTS are in the map"""

    def __init__(self):
        self.present = {}
        self.events = []

    def add_cell(self, atom):
        self.present[id(atom)] = atom
        self.events.append(("add", atom.name))

    def remove_cell(self, atom):
        self.present.pop(id(atom), None)
        self.events.append(("remove", atom.name))


def h_flip_site(eng, resname, outcome):
    """after the flip machinery has completed, exactly the residue's atoms are in the cell map
    (coordinates symbolic: the bookkeeping must not depend on them)"""
    from pdb2pqr import debump, hydrogens, quatfit, utilities
    from pdb2pqr.hydrogens import structures as hs

    from . import c04

    bm, res = c04._setup(resname, "internal", False)
    deb = debump.Debump(bm)
    routines = hydrogens.HydrogenRoutines(deb, hydrogens.create_handler())
    opt = routines.is_optimizeable(res)
    log = _IdLog()
    for a in res.atoms:
        log.add_cell(a)  # assign_cells
    if eng.symbolic:
        for a in res.atoms:
            a.x, a.y, a.z = eng.real(f"{a.name}_x"), eng.real(f"{a.name}_y"), eng.real(f"{a.name}_z")
    deb.cells = log
    from pdb2pqr import structures as structures_mod

    sym = []
    if eng.symbolic:
        C, S = eng.real("C"), eng.real("S")
        u = [eng.real("u0"), eng.real("u1"), eng.real("u2")]
        sym = [
            (quatfit, "math", type("M", (), {"pi": 3.141592653589793, "cos": staticmethod(lambda x: C), "sin": staticmethod(lambda x: S)})),
            (quatfit, "normalize", lambda v: list(u)),
            (utilities, "np", shims.NP),
            (utilities, "dihedral", lambda *a: 0.0),
            (debump, "util", utilities),
            (structures_mod.Atom, "__str__", lambda self: f"<atom {self.name}>"),  # only used in a debug message of fix_flip
        ]
    with patched(*sym):
        flip = hs.Flip(res, opt, deb)
        moved = [a.name[:-4] for a in res.atoms if a.name.endswith("FLIP")]
        if outcome == "keep" and moved:
            flip.fix_flip(res.get_atom(moved[0] + "FLIP"))
        elif outcome == "flip" and moved:
            flip.fix_flip(res.get_atom(moved[0]))
        flip.complete()
    in_map = set(log.present)
    atoms = {id(a): a for a in res.atoms}
    missing = sorted(a.name for i, a in atoms.items() if i not in in_map)
    ghosts = sorted(a.name for i, a in log.present.items() if i not in atoms)
    eng.note(f"{resname} {outcome}: not in map {missing}; ghosts {ghosts}")
    eng.check(not missing, "kept-atoms-stay-in-the-cell-map", note=f"{resname} ({outcome}): atoms {missing} of the final residue are no longer in the cell map (neighbour queries cannot return them)")
    eng.check(not ghosts, "deleted-atoms-leave-the-cell-map", note=f"{resname} ({outcome}): deleted atoms {ghosts} are still listed in the cell map")
    eng.derived["flip_outcome"] = outcome


def obligations(tier):
    obs = []
    sizes_key = range(1, 11) if tier == "thorough" else (2, 5)
    for s in sizes_key:
        obs.append(Obligation(f"key-size{s}", h_key, {"size": s}, group="key", time_cap=300))
    for s in (2, 5) if tier == "quick" else (1, 2, 3, 5, 10):
        obs.append(Obligation(f"query2-size{s}", h_query2, {"size": s}, group="query2", time_cap=600))
    import itertools

    def hist(size, nops, natoms):
        steps = [(op, who) for op in OPS for who in range(natoms)]
        for seq in itertools.product(steps, repeat=nops):
            tag = "-".join(f"{op}{who}" for op, who in seq)
            obs.append(Obligation(f"history-size{size}-atoms{natoms}-{tag}", h_history, {"size": size, "ops": list(seq), "natoms": natoms}, group="history", time_cap=3000, max_paths=200000))

    hist(2, 1, 2)
    for op in ("move", "readd"):
        obs.append(Obligation(f"history-size2-atoms2-query-then-{op}0", h_history, {"size": 2, "ops": [(op, 0)], "natoms": 2, "query_first": True}, group="history", time_cap=3000, max_paths=200000))
    if tier == "thorough":
        # measured: one operation on two atoms at size 5 takes 27 s for the eight sequences; three atoms, or two operations,
        # take more than 15-25 min per group even at size 2 (three / four symbolic points under floor division) and are
        # not registered (even two selected two-operation sequences ran past 20 min)
        hist(5, 1, 2)
    for size in (2, 5):
        for natoms in (2,):
            last = natoms - 1
            for tail in ([],):
                seq = [("add", last)] + tail
                tag = "-".join(f"{op}{who}" for op, who in seq)
                obs.append(Obligation(f"history-stale-size{size}-atoms{natoms}-{tag}", h_history, {"size": size, "ops": seq, "natoms": natoms, "stale": True}, group="history", time_cap=3000, max_paths=200000))
    for s in (2, 5) if tier == "thorough" else (2,):
        obs.append(Obligation(f"debump-site-SER-chi1-size{s}", h_debump_site, {"resname": "SER", "anglenum": 0, "size": s}, group="debump-site", time_cap=3000, max_paths=200000))
    for resname, steps, rounds in (("SER", 3, 1),) if tier == "quick" else (("SER", 3, 2), ("SER", 4, 1), ("CYS", 3, 1), ("LYS", 3, 1), ("ARG", 2, 2)):
        obs.append(Obligation(f"debump-scan-{resname}-steps{steps}-rounds{rounds}", h_debump_scan, dict(resname=resname, steps=steps, rounds=rounds), group="debump-scan", time_cap=3000, max_paths=200000))
    for kind, pres in (("water", ((), ("H1",), ("H1", "LP1"), ("LP1", "LP2"), ("H1", "LP1", "LP2"))), ("alcohol", ((), ("LP1",), ("LP1", "LP2")))):
        for pre in pres:
            for then_complete in (False, True):
                obs.append(Obligation(f"hydrogen-site-{kind}-{'+'.join(pre) or 'bare'}{'-complete' if then_complete else ''}", h_hydrogen_site, dict(kind=kind, pre=list(pre), then_complete=then_complete), group="hydrogen-site", time_cap=1200))
    obs.append(Obligation("map-rebuilt-between-passes", h_map_rebuilt, {}, group="map-rebuilt", time_cap=900))
    for hq, ho in ((True, True), (True, False), (False, False)):
        obs.append(Obligation(f"bump-search-{'heavy' if hq else 'hydrogen'}-{'heavy' if ho else 'hydrogen'}", h_bump_search, dict(heavy_query=hq, heavy_other=ho), group="partner-search", time_cap=600))
    for kind, pre in (("water", ("H1", "LP1")), ("water", ("LP1", "LP2")), ("alcohol", ("LP1",)), ("water", ("H1", "LP1", "LP2")), ("alcohol", ("LP1", "LP2"))):
        obs.append(Obligation(f"hydrogen-site-{kind}-{'+'.join(pre)}-donor-attempt", h_hydrogen_site, dict(kind=kind, pre=list(pre), then_complete=True, attempt=True), group="hydrogen-site", time_cap=1200))
    for kind, pre in (("water", ()), ("water", ("H1",)), ("alcohol", ()), ("alcohol", ("LP1",))):
        obs.append(Obligation(f"hydrogen-site-{kind}-{'+'.join(pre) or 'bare'}-undone-try-both", h_hydrogen_site, dict(kind=kind, pre=list(pre), then_complete=True, undo=True), group="hydrogen-site", time_cap=1200))
    for resname in ("ASH",) if tier == "quick" else ("ASH", "GLH"):
        obs.append(Obligation(f"carboxylic-site-{resname}", h_carboxylic_site, dict(resname=resname, prop="C14"), group="hydrogen-site", time_cap=1500, max_paths=100000))
    for kind in ("water", "alcohol", "flip-ASN", "flip-HIS"):  # groups of one and of four atoms
        obs.append(Obligation(f"partner-search-{kind}", h_partner_search, dict(kind=kind), group="partner-search", time_cap=600))
    if tier == "thorough":
        obs.append(Obligation("debump-site-CYS-chi1-size2", h_debump_site, {"resname": "CYS", "anglenum": 0, "size": 2}, group="debump-site", time_cap=3000, max_paths=200000))
    for r in ("ASN",) if tier == "quick" else ("ASN", "GLN", "HIS"):
        for outcome in ("undecided", "keep", "flip"):
            obs.append(Obligation(f"flip-site-{r}-{outcome}", h_flip_site, dict(resname=r, outcome=outcome), group="flip-site", time_cap=900))
    return obs


def encoded():
    cells, _ = _mods()
    from pdb2pqr import debump

    return [cells.Cells.add_cell, cells.Cells.remove_cell, cells.Cells.get_near_cells, cells.Cells.assign_cells, debump.Debump.set_dihedral_angle]


META = dict(
    stubs=[
        "pdb2pqr.cells.int -> symx truncation-toward-zero on exact reals (module-namespace shim)",
        "Cells.cellmap -> symx AssocMap (association list, key equality decided by the solver) instead of dict",
        "atoms are real pdb2pqr.structures.Atom objects with symbolic x,y,z",
        "call-site obligations (debump-scan, hydrogen-site, carboxylic-site, flip-site): routines.cells -> recorder of (atom object -> coordinates at add_cell); keys are computed by the real add_cell on probes only when registered and current coordinates are not the same terms; Residue.rotate_tetrahedral's quat.qchichange -> periodic abstraction (a full turn restores the terms, any other cumulative angle gives fresh symbolic positions; the real function selects the movers); score_dihedral_angle / find_residue_conflicts / get_closest_atom / util.distance / get_pair_energy / is_hbond / get_hbond_angle / is_carboxylic_hbond -> answers driven by lazy symbolic selectors (which iteration wins, neighbour present, which position / candidate better, which attempt succeeds)",
        "partner-search / bump-search: cells -> stub that returns the partner when the symbolic distance is below the cell size the real set-up configured and returns / withholds it beyond (two runs); util.distance -> the symbolic distance; optimize_hydrogens stopped after the detection loop",
        "debump-site: debump.quat.qchichange -> returns arbitrary fresh symbolic positions (the rotation itself is C04/C15's subject); pdb2pqr.utilities.np -> symx numpy subset (exact list arithmetic) so the real util.subtract/add run on proxies; utilities.dihedral -> constant (its value is irrelevant to the cell map)",
    ],
    bounds=[
        "coordinates: unbounded reals (no range restriction)",
        "cell sizes: quick {2,5}; thorough key lemma 1..10, query 1,2,3,5,10",
        "histories: assign_cells on natoms-1 atoms (+1 outside), then every sequence of nops operations from {add, remove, move=remove/write/add with fresh symbolic coordinates, readd} x atom (operation sequences enumerated, coordinates symbolic), then a query from every present atom; quick: 2 atoms x 1 op at size 2; thorough adds 2 atoms x 1 op at size 5 (three atoms or two operations: > 15-25 min per group, measured, not registered); plus histories in which the outside atom carries a stale key from an earlier map when it is added",
        "call sites: SER/CYS/LYS/ARG scans of 2-4 steps x 1-2 rounds; Water from five pre-states (bare, H1, H1+LP1, LP1+LP2, H1+LP1+LP2), Alcoholic from three, each with and without complete(); try_both undo from two pre-states each; Carboxylic: ASH (thorough also GLH), 0-2 attempts then complete + cleanup; all on one SER/ASH/HOH fixture",
    ],
    outside=[
        "call sites not covered: HydrogenRoutines.cleanup() (last hydrogen step of non_trivial: no query follows it); the optimize.py try_* helpers are reached only as far as Water/Alcoholic finalize/try_both call them (they create, place, then bin). Covered call sites: Debump.set_dihedral_angle, the whole Debump.debump_residue scan (scan length / rounds reduced by patching DEBUMP_ANGLE_STEPS / DEBUMP_ANGLE_TEST_COUNT: the loop body is the same for every step), Flip, Water/Alcoholic finalize + complete + try_both undo, the Carboxylic optimisation",
        "floating-point: coordinates are exact reals; add_cell only compares with 0 and truncates, both exact on doubles",
        "histories longer than the stated bound",
    ],
    assumptions=[
        "callers add an atom only when it is not already in the map (the protocol of every call site); removing an absent atom is allowed and checked to be a no-op",
    ],
    technique="symbolic execution of the real Cells methods on z3 reals (symx), solver verdict per path; Euclidean brute-force oracle",
)

MANIFEST = dict(
    text='For C14: Cells.add_cell/remove_cell/get_near_cells/assign_cells for ALL real coordinates (unbounded), cell sizes 2 and 5 (1..10 thorough), against a Euclidean brute-force oracle, over every add/remove/move/readd sequence up to the stated length; plus the call sites that are supposed to keep the map in step with coordinate writes and atom deletions - Debump.set_dihedral_angle, the Debump.debump_residue scan, Flip, Water/Alcoholic finalize/complete/try_both, the Carboxylic optimisation (rotations abstracted to arbitrary positions, outcomes of geometric tests symbolic selectors): on return and at every neighbour query each atom is binned where it is and no deleted atom is listed; the distance cut-offs of the callers lie within the cell size the real set-up configures (relational two-run obligation); a map rebuilt between passes lists exactly the live atoms. Round 4: a real donor attempt (try_donor on an oxygen with two bonds, outcome of each trial position a selector) before finalisation. Round 5: histories with queries before the change (anything a query remembers must not outlive a change); donor attempts on oxygens with three bonds.',
    note='Trusted: z3, the symx int()-truncation, numpy-subset and association-list dict models (validated against CPython each run). Coordinates are exact reals (add_cell only compares with 0 and truncates, exact on doubles). Histories bounded (2 atoms x 1 operation at cell sizes 2 and 5; longer ones were measured at > 15 min per group and are not registered). Call-site obligations abstract the geometry (any position may result from a rotation; any outcome of a geometric test), so they over-approximate the reachable states of each site: a violation there is replayed concretely before it is reported.',
    technique='symbolic execution of real code on z3 Real/Int proxies (symx) + SMT verdict per path',
    design='DESIGN.md section 3 C14',
)
