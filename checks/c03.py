"""C03 - no atom is silently lost, duplicated or invented.

K2/K4 (symbolic selectors through the REAL pipeline): tripeptides in which the
presence of every heavy atom of the middle residue, of a foreign atom and of
input hydrogens, and the options debump / opt / assign-only / drop-water are
symbolic; the real non_trivial runs on each feasible valuation.  Oracles: either
a loud error, or every input heavy atom of a recognised residue appears once
(or its deletion is logged), every atom of the final model is written or
reported as unassigned, fully parameterised residues carry exactly the atom set
of their final topology, no placeholder (LP*, *FLIP) survives.
K3 (symbolic pre-state): real hydrogens.structures.Water.complete on a water
whose atom list (hydrogens, lone pairs, order) is symbolic.
K1 (ingestion, first occurrence wins): shared with C07's record harness.
"""
from __future__ import annotations

import itertools
import logging

from symx import core
from symx.core import And
from symx.run import Obligation
from symx.shims import patched

from . import c07, fixtures

PROP = "C03"


class _Cap(logging.Handler):
    def __init__(self):
        super().__init__(level=logging.INFO)
        self.msgs = []

    def emit(self, record):
        try:
            self.msgs.append(record.getMessage())
        except Exception:  # noqa: BLE001
            self.msgs.append(str(record.msg))


def _heavy_names(resname):
    ref = fixtures.pristine_definition().map[resname]
    return [n for n in ref.map if not n.startswith("H")]


def h_pipeline(eng, resname, ff, position, water):
    from pdb2pqr import aa, main

    idx = {"nterm": 0, "internal": 1, "cterm": 2}[position]
    heavy = _heavy_names(resname)
    present = {n: eng.flag(f"has_{n}") for n in heavy}
    foreign = eng.flag("foreign_atom")
    in_h = eng.flag("input_has_hydrogen")
    assign_only = eng.flag("assign_only")
    debump = eng.flag("debump")
    opt = eng.flag("opt")
    seq = ["ALA", "ALA", "ALA"]
    seq[idx] = resname
    omit = {idx: [n for n in heavy if not present[n]]}
    lines = fixtures.peptide_lines(seq, omit=omit, ter=False)
    if foreign:
        lines.append(fixtures.atom_line(700, "XX1", resname, "A", idx + 1, 5.0 - 3.8 * idx, 5.0, 5.0))
    if in_h:
        ref = fixtures.pristine_definition().map[resname].map["HA" if "HA" in fixtures.pristine_definition().map[resname].map else "HA2"]
        lines.append(fixtures.atom_line(701, ref.name, resname, "A", idx + 1, ref.x - 3.8 * idx, ref.y, ref.z))
    # re-group the extra atoms with their residue (the reader groups consecutive records)
    def key(ln):
        return (int(ln[22:26]), int(ln[6:11]))

    lines = sorted(lines, key=key) + ["TER"]
    if water:
        lines += fixtures.residue_lines("WAT", "A", 30, serial0=800, offset=(0.0, 7.0, 0.0), record="HETATM") + ["TER"]
    cap = _Cap()
    lg = logging.getLogger("pdb2pqr")
    old = lg.level
    lg.setLevel(logging.INFO)
    lg.addHandler(cap)
    main_cap = _Cap()
    main_old = main._LOGGER.level
    main._LOGGER.setLevel(logging.INFO)
    main._LOGGER.addHandler(main_cap)
    main_msgs = main_cap.msgs
    try:
        try:
            bm, defn = fixtures.prepared(lines)
            input_heavy = {(r.res_seq, a.name): tuple(a.coords) for r in bm.residues for a in r.atoms if not a.is_hydrogen}
            args = fixtures.Args(ff=ff, pka_method=None, debump=debump and not assign_only, opt=opt and not assign_only, assign_only=assign_only)
            result = main.non_trivial(args, bm, None, defn, False)
        except (ValueError, TypeError, KeyError, IndexError, AttributeError) as e:
            # any exception ends the run without output: loud, tolerated by this property (the subject of C12)
            eng.check(True, "loud-failure-tolerated", note=f"{type(e).__name__}")
            eng.note(f"missing={omit[idx]} foreign={foreign}: {type(e).__name__} {str(e)[:60]}")
            return
    finally:
        lg.removeHandler(cap)
        lg.setLevel(old)
        main._LOGGER.removeHandler(main_cap)
        main._LOGGER.setLevel(main_old)
    eng.note(f"missing={omit[idx]} foreign={foreign} inH={in_h} assign_only={assign_only} debump={debump} opt={opt}")
    eng.derived["repair_skipped"] = (not assign_only) and bool(omit[idx]) and not any("Attempting to repair" in m for m in main_msgs)
    final = {(r.res_seq, a.name): a for r in bm.residues for a in r.atoms}
    deleted_log = " ".join(cap.msgs)
    # (1) every input heavy atom of a recognised residue is in the final model, unmoved in name, or its deletion was reported
    for (num, name), xyz in input_heavy.items():
        if (num, name) in final:
            continue
        eng.check(f"Extra atom {name} in" in deleted_log, "input-heavy-atom-kept-or-deletion-reported", note=f"input heavy atom {name} of residue {num} is gone and no deletion was logged (missing={omit[idx]}, foreign={foreign})")
    # (2) no duplicates, no placeholders
    for r in bm.residues:
        names = [a.name for a in r.atoms]
        eng.check(len(names) == len(set(names)), "no-duplicate-names", note=f"residue {r} has duplicate atom names {names}")
        eng.check(not any(n.startswith("LP") or n.endswith("FLIP") for n in names), "no-placeholder-atoms", note=f"residue {r} still carries placeholder atoms {[n for n in names if n.startswith('LP') or n.endswith('FLIP')]}")
    # (3) written U unassigned = final model, disjoint
    printed = [ln for ln in result["lines"] if ln.startswith(("ATOM", "HETATM"))]
    missed = result["missed_residues"]
    eng.check(len(printed) + len(missed) == len(bm.atoms), "written-or-unassigned", note=f"{len(bm.atoms)} atoms in the final model, {len(printed)} written + {len(missed)} reported as unassigned")
    # (4) fully parameterised residues carry exactly the atom set of their final topology (unless atom addition is off)
    if not assign_only:
        for r in bm.residues:
            if not isinstance(r, (aa.Amino, aa.WAT)):
                continue
            if any(a.residue is r for a in missed):
                continue
            want = {n for n in r.reference.map if n not in ("N+1", "C-1")}
            if isinstance(r, aa.WAT):
                want = {"O", "H1", "H2"}
            got = {a.name for a in r.atoms}
            eng.check(got == want, "atom-set-equals-final-topology", note=f"residue {r} ({getattr(r, 'ffname', r.name)}): atoms {sorted(got ^ want)} differ from its topology (missing={omit[idx]}, foreign={foreign})")


def h_states(eng, resname, ff):
    """pKa-driven states, neutral termini and hydrogens already present in the input, all as symbolic
    selectors through the real pipeline: the final model has exactly the atom set of its final topology"""
    from pdb2pqr import aa, main

    from . import c06

    use_propka = eng.flag("titrate_with_propka")
    protonate = eng.flag("propka_says_protonated") if use_propka else False
    opt = eng.flag("opt")
    debump = eng.flag("debump")
    in_h3 = eng.flag("input_has_nterm_h3")
    in_h2 = eng.flag("input_has_nterm_h2")
    neutraln = eng.flag("neutraln") if ff == "parse" else False
    neutralc = eng.flag("neutralc") if ff == "parse" else False
    lines = fixtures.peptide_lines(["ALA", resname, "ALA"], ter=False)
    nref = fixtures.pristine_definition().map["NALA"].map
    for k, (flag, hn) in enumerate(((in_h3, "H3"), (in_h2, "H2"))):
        if flag:
            lines.append(fixtures.atom_line(600 + k, hn, "ALA", "A", 1, nref[hn].x, nref[hn].y, nref[hn].z))
    # complete C-terminus (otherwise heavy-atom repair runs and deletes unknown atoms as 'extra')
    oxt = fixtures.pristine_definition().map["CALA"].map["OXT"]
    lines.append(fixtures.atom_line(650, "OXT", "ALA", "A", 3, oxt.x - 7.6, oxt.y, oxt.z))
    lines = sorted(lines, key=lambda ln: (int(ln[22:26]), int(ln[6:11]))) + ["TER"]
    pk = 12.0 if protonate else 1.0
    stub = c06._propka_stub({"group": pk, "N+": 8.0, "C-": 3.0})
    try:
        bm, defn = fixtures.prepared(lines, neutraln=neutraln, neutralc=neutralc)
        args = fixtures.Args(ff=ff, pka_method="propka" if use_propka else None, ph=7.0, debump=debump, opt=opt, neutraln=neutraln, neutralc=neutralc, keep_chain=True)
        with patched((main, "run_propka", stub)):
            result = main.non_trivial(args, bm, None, defn, False)
    except (ValueError, TypeError, KeyError, IndexError, AttributeError) as e:
        eng.check(True, "loud-failure-tolerated", note=type(e).__name__)
        eng.note(f"raised {type(e).__name__}: {str(e)[:70]}")
        return
    eng.note(f"{resname} protonate={protonate} opt={opt} H3in={in_h3} H2in={in_h2} neutraln={neutraln} neutralc={neutralc} -> {[r.ffname for r in bm.residues]}")
    missed = result["missed_residues"]
    printed = [ln for ln in result["lines"] if ln.startswith(("ATOM", "HETATM"))]
    eng.check(len(printed) + len(missed) == len(bm.atoms), "written-or-unassigned")
    for r in bm.residues:
        names = [a.name for a in r.atoms]
        eng.check(len(names) == len(set(names)), "no-duplicate-names", note=f"{r}: {names}")
        if not isinstance(r, aa.Amino):
            continue
        # (a) nothing of the residue's final topology is missing (alternatives of optimisable groups aside: judged by the force field)
        mine = [a for a in missed if a.residue is r]
        # (b) an unassigned atom that belongs to ANOTHER state of this residue (a spare proton double, a terminal
        #     hydrogen of the other terminus kind) is a leftover the pipeline should have removed: invented / not cleaned up
        family = FAMILY.get(r.name, [r.name])
        other_state_names = set()
        for base in family:
            for pre in ("", "N", "C", "NEUTRAL-N", "NEUTRAL-C"):
                d = fixtures.pristine_definition().map.get(pre + base)
                if d is not None:
                    other_state_names |= set(d.map)
        left = [a.name for a in mine if a.name in other_state_names]
        eng.check(not left, "no-leftover-atoms-of-another-state", note=f"residue {r} ({r.ffname}): {left} belong to another protonation/terminal state of this residue, are still in the final model and end up unassigned (propka protonated={protonate}, opt={opt}, input H3={in_h3}, H2={in_h2}, neutraln={neutraln}, neutralc={neutralc})")
        if not mine:
            hs_ = [n for n in names if n.startswith("H")]
            eng.check(len(hs_) > 0, "hydrogens-present")


FAMILY = {"ASP": ["ASP", "ASH"], "GLU": ["GLU", "GLH"], "HIS": ["HIS", "HID", "HIE", "HIP"], "LYS": ["LYS", "LYN"], "TYR": ["TYR", "TYM"], "CYS": ["CYS", "CYM", "CYX"], "ARG": ["ARG", "AR0"]}


def h_water_complete(eng, order_index):
    """real Water.complete on a water whose hydrogens / lone pairs (and their order in the atom list) are symbolic"""
    from pdb2pqr import debump, hydrogens
    from pdb2pqr.hydrogens import structures as hs

    extras_all = ["H1", "H2", "LP1", "LP2"]
    have = {n: eng.flag(f"has_{n}") for n in extras_all}
    if have["H2"] and not have["H1"]:
        eng.assume(False)  # H2 is only ever created after H1
    names = [n for n in extras_all if have[n]]
    perms = list(itertools.permutations(names))
    order = perms[order_index % len(perms)] if perms else ()
    if order_index >= max(1, len(perms)):
        eng.assume(False)
    lines = fixtures.peptide_lines(["ALA", "LYS", "ALA"]) + fixtures.residue_lines("WAT", "A", 30, serial0=800, offset=(0.0, 7.0, 0.0), record="HETATM") + ["TER"]
    bm, _ = fixtures.prepared(lines)
    bm.add_hydrogens()
    from pdb2pqr import aa as aa_mod

    wat = [r for r in bm.residues if isinstance(r, aa_mod.WAT)][0]
    o = wat.get_atom("O")
    pos = {"H1": (0.96, 0.0, 0.0), "H2": (-0.24, 0.93, 0.0), "LP1": (-0.3, -0.4, 0.8), "LP2": (-0.3, -0.4, -0.8)}
    for n in order:
        wat.create_atom(n, [o.x + pos[n][0], o.y + pos[n][1], o.z + pos[n][2]])
    deb = debump.Debump(bm)
    handler = hydrogens.create_handler()
    routines = hydrogens.HydrogenRoutines(deb, handler)
    routines.initialize_wat_optimization()
    obj = routines.resmap[wat]
    eng.note(f"atom list before complete: {[a.name for a in wat.atoms]}")
    obj.complete()
    got = sorted(a.name for a in wat.atoms)
    eng.check(got == ["H1", "H2", "O"], "water-completed", note=f"atom list {['O'] + list(order)} -> after complete(): {got}")


def h_partly_protonated_input(eng, ff):
    """an input that already carries SOME hydrogens (polar-hydrogen-only files of united-atom force fields, a structure
    protonated by another tool with a few hydrogens deleted): every residue is still completed to the atom set of its
    topology - which hydrogens the input lacks is a selector (none / the carbon-bound ones / the polar ones / one single
    hydrogen), the residue type too.  PARSE gives carbon-bound hydrogens zero charge, so a residue left incomplete passes
    the total-charge check."""
    from pdb2pqr import main

    resname = ["SER", "LYS", "ASP", "THR"][eng.choice("residue", 4)]
    strip = eng.choice("hydrogens_absent_from_input", 4)
    opt = eng.flag("opt")
    seq = ["ALA", resname, "ALA"]
    bm0, defn0 = fixtures.prepared(fixtures.peptide_lines(seq))
    main.non_trivial(fixtures.Args(ff=ff, pka_method=None, debump=False, opt=False), bm0, None, defn0, False)
    lines, serial = [], 1
    for r in bm0.residues:
        for a in r.atoms:
            if a.is_hydrogen:
                parent = a.bonds[0].name if a.bonds else ""
                carbon_bound = parent.startswith("C")
                if (strip == 1 and carbon_bound) or (strip == 2 and not carbon_bound and r is bm0.residues[1]) or (strip == 3 and r is bm0.residues[1] and a.name == "HA"):
                    continue
            lines.append(fixtures.atom_line(serial, a.name, r.name, "A", r.res_seq, a.x, a.y, a.z, element="H" if a.is_hydrogen else a.name[0]))
            serial += 1
    lines += ["TER", "END"]
    try:
        bm, defn = fixtures.prepared(lines)
        res = main.non_trivial(fixtures.Args(ff=ff, pka_method=None, debump=False, opt=opt), bm, None, defn, False)
    except (ValueError, KeyError, TypeError, AttributeError) as e:
        eng.check(True, "loud-failure-tolerated", note=f"{type(e).__name__}: {str(e)[:60]}")
        return
    missed = {id(a.residue) for a in res["missed_residues"]}
    for r in bm.residues:
        if id(r) in missed:
            continue
        have, want = sorted(a.name for a in r.atoms), sorted(n for n in r.reference.map if n not in ("N+1", "C-1"))
        eng.check(have == want, "atom-set-is-the-final-topology", note=f"input with hydrogens partly absent (case {strip}): {r} is written with {len(have)} atoms, its topology has {len(want)}: missing {sorted(set(want) - set(have))[:6]}, extra {sorted(set(have) - set(want))[:6]}")


def obligations(tier):
    obs = []
    plan = [("SER", "amber", "internal", True), ("GLY", "parse", "internal", False), ("CYS", "charmm", "cterm", False), ("SER", "amber", "nterm", False)] if tier == "quick" else [(r, ff, pos, w) for r in ("SER", "GLY", "CYS", "ASP") for ff, w in (("amber", True), ("parse", False)) for pos in ("nterm", "internal", "cterm")]
    for r, ff, pos, w in plan:
        obs.append(Obligation(f"pipeline-{r}-{ff}-{pos}{'-water' if w else ''}", h_pipeline, dict(resname=r, ff=ff, position=pos, water=w), group="pipeline", time_cap=3000, max_paths=100000))
    for r, ff in (("ASP", "amber"), ("GLU", "parse"), ("LYS", "parse"), ("HIS", "amber")) if tier == "quick" else [(r, ff) for r in ("ASP", "GLU", "LYS", "HIS", "TYR", "CYS") for ff in ("amber", "parse", "charmm")]:
        obs.append(Obligation(f"states-{r}-{ff}", h_states, dict(resname=r, ff=ff), group="states", time_cap=3000, max_paths=100000))
    for k in range(24):
        obs.append(Obligation(f"water-complete-order{k}", h_water_complete, dict(order_index=k), group="water-complete", time_cap=1200))
    # K1: first occurrence wins at ingestion (C07's harness, the record kinds that duplicate atoms)
    dup_kinds = ["altloc-pair-A-first", "altloc-pair-B-first", "altloc-pair-alias-name", "atom-same-residue", "atom-insertion-code", "atom-new-residue"]
    for k in range(len(dup_kinds)):
        obs.append(Obligation(f"ingest-first={dup_kinds[k]}", c07.h_records, dict(nlines=3 if tier == "quick" else 4, kinds=dup_kinds, models="plain", drop=False, first=k), group="ingest", time_cap=1500, max_paths=100000))
    # a multi-model file contributes its first model once: no residue of model 1 is filed twice when the second MODEL record
    # ends the read (C07's harness; round 6)
    for m in ("two-models-from-0", "two-models-same-number"):
        obs.append(Obligation(f"ingest-{m}", c07.h_records, dict(nlines=1 if tier == "quick" else 2, kinds=c07.QUICK_KINDS, models=m, drop=False), group="ingest", time_cap=1500, max_paths=100000))
    # --drop-water removes water records only: no other residue (RNA "A", hydroxide "OH", ...) vanishes with them (C07's harness)
    obs += c07._drop_name_obligations()
    # every atom of the list handed to the printer is written, whatever the chain changes and the layout (C08's harness)
    from . import c08

    for n, ws, kc in ((2, True, True), (3, True, False), (3, False, True)) if tier == "quick" else [(n, ws, kc) for n in (2, 3) for ws in (False, True) for kc in (False, True)]:
        obs.append(Obligation(f"atoms-written-n{n}-{'ws' if ws else 'fixed'}-{'kc' if kc else 'nokc'}", c08.h_atom_list, dict(n=n, ws=ws, kc=kc), group="atoms-written", time_cap=1200))
    # --whitespace keeps every atom line, also HETATM lines whose serial has five digits (glued to the record name)
    for rtype in ("ATOM", "HETATM"):
        obs.append(Obligation(f"whitespace-keeps-lines-{rtype}", c08.h_roundtrip, dict(focus=["serial"], rtype=rtype, ws=True, kc=False, serial_max=99999), group="roundtrip", time_cap=1200))
    # after a chain is split at a hidden chain end the chain view still lists every residue once (C02's termini harness)
    from . import c02

    obs.append(Obligation("chain-view-hidden-ends", c02.h_termini, dict(layout="hidden-ends", strict=True), group="chain-view", time_cap=3000, max_paths=100000))
    # the carboxylic-acid optimisation ends with the atom set of the topology whatever sequence of attempts ran (C14's site harness)
    from . import c14

    for resname in ("ASH", "GLH"):
        obs.append(Obligation(f"carboxylic-completion-{resname}", c14.h_carboxylic_site, dict(resname=resname, prop="C03"), group="completion", time_cap=1500, max_paths=100000))
    for ff in ("parse", "amber"):
        obs.append(Obligation(f"partly-protonated-input-{ff}", h_partly_protonated_input, dict(ff=ff), group="pipeline", time_cap=1500))
    # a ligand run: every atom of the complex - also the second copy of a cofactor bound to another chain under the same
    # residue number - is written or in the unassigned list the run returns (C16's transfer harness, distinct names)
    from . import c16

    obs.append(Obligation("ligand-run-written-or-reported", c16.h_transfer, dict(ff=0, collisions=False), group="pipeline", time_cap=1200))
    return obs


def encoded():
    from pdb2pqr import aa
    from pdb2pqr import biomolecule as biomol
    from pdb2pqr import main
    from pdb2pqr.hydrogens import structures as hs

    B = biomol.Biomolecule
    return [main.non_trivial, main.is_repairable, B.repair_heavy, B.add_hydrogens, B.apply_force_field, hs.Water.complete, hs.Water.finalize, aa.Amino.__init__]


META = dict(
    stubs=[
        "pipeline: none - for every feasible valuation of the symbolic selectors the real reader, constructor, set_termini, update_bonds and non_trivial (real force field, real hydrogen optimisation) run on the generated PDB text; log records captured by a handler",
        "water-complete: the pre-state (which of H1, H2, LP1, LP2 exist and in which order they sit in the atom list) is constructed directly with the real Residue.create_atom; Water object obtained from the real HydrogenRoutines.initialize_wat_optimization",
    ],
    bounds=[
        "pipeline: ALA-X-ALA with X in {SER, GLY, CYS} (thorough + ASP) at the stated position; presence of each heavy atom of X, of one foreign atom XX1, of one input hydrogen, and the options assign-only / debump / opt symbolic; with or without a water; force fields amber/parse/charmm",
        "water-complete: every subset of {H1, H2, LP1, LP2} (H2 only with H1) in every order",
        "ingest: C07's record harness restricted to the duplicate-producing kinds, 3 (thorough 4) symbolic lines",
    ],
    outside=[
        "the search of optimize_hydrogens over whole hydrogen-bond networks; Flip/Alcoholic/Carboxylic completion on arbitrary optimisation histories (exercised only through the real pipeline on the small structures above)",
        "nucleic acids (the 5'-phosphate exception)",
    ],
    assumptions=["deletion of an extraneous atom is 'reported' when the log carries 'Extra atom <name> in <residue>'"],
    technique="symbolic selectors over structure completeness and options, real pipeline executed on every feasible valuation (symx) + solver-pruned path exploration; symbolic pre-state for Water.complete",
)

MANIFEST = dict(
    text="For C03: the real pipeline (reader, constructor, termini, repair, hydrogens, optimisation, force field) on tripeptides whose heavy-atom completeness, a foreign atom, an input hydrogen and the options assign-only/debump/opt are symbolic selectors - every feasible valuation is executed: either a loud error, or every input heavy atom is kept once (or its deletion logged), written + unassigned = final model, fully parameterised residues carry exactly the atom set of their final topology, no LP*/FLIP placeholder or duplicate name survives; the real Water.complete from every pre-state of hydrogens / lone pairs in every list order; first-occurrence-wins ingestion and the symbolic-residue-name --drop-water obligation through C07's harness; the real Carboxylic optimisation (try_acceptor / try_donor / fix / finalize / complete + cleanup on ASH and GLH, outcomes of the geometric tests symbolic selectors) ends with the atom set of the topology and exactly one acid proton. Round 4: every atom of the list handed to the printer is written for every chain-change pattern and layout (the atom-list harness of C08). Round 5: --whitespace keeps HETATM lines with five-digit serials; chain view after a hidden-chain-end split (C02 harness, strict).",
    note="Trusted: z3 (feasibility of selector valuations), symx. The selectors are concretised by forking, so this is exhaustive over the stated finite space rather than symbolic in numeric values. The optimisation search over whole H-bond networks is outside (single-residue attempt sequences of length <= 2 are inside for carboxylic acids).",
    technique="symbolic selectors + path exploration of the real pipeline (symx); symbolic pre-state for Water.complete",
    design="DESIGN.md section 3 C03",
)
