"""C13 - disulfide bridges are detected symmetrically and exclusively.

Real code executed symbolically: Biomolecule.update_ss_bridges, apply_patch,
add_hydrogens (HG suppression), CYS.set_state / Amino.set_state.  The SG-SG
distances are an arbitrary symbolic metric (util.distance stubbed for SG-SG
pairs only), so one run covers every placement of the sulfurs.
"""
from __future__ import annotations

import itertools

from symx.core import And, Implies
from symx.run import Obligation
from symx.shims import patched

from . import fixtures

PROP = "C13"
LIMIT = 2.5  # the documented bonding limit (property statement), not read from the code

# layouts: how the N cysteines are embedded (enumerated; finite)
LAYOUTS = {
    "own-chains": "every CYS is its own one-residue chain A,B,C,...",
    "one-chain": "all CYS consecutive in chain A (first is N-terminal, last C-terminal)",
    "spaced": "ALA-CYS-ALA-CYS-... in one chain (all CYS internal)",
    "two-chains": "CYS split alternately over chains A and B with GLY caps",
}


def _build(layout, n, order):
    """PDB lines for n cysteines; ``order`` permutes the file order of the
    residues that carry them.  Returns (lines, [(chain, resseq)] per CYS index)."""
    blocks = []  # (lines, key)
    if layout == "own-chains":
        for i in range(n):
            ch = "ABCDEFG"[i]
            blocks.append((fixtures.residue_lines("CYS", ch, 10 + i, offset=(0.0, 12.0 * i, 0.0)) + ["TER"], (ch, 10 + i)))
        blocks = [blocks[i] for i in order]
        lines = [ln for b in blocks for ln in b[0]]
        keys = [b[1] for b in sorted(blocks, key=lambda b: b[1])]
        return lines, keys
    if layout == "one-chain":
        seq = ["CYS"] * n
        return fixtures.peptide_lines(seq, "A", 1), [("A", 1 + i) for i in range(n)]
    if layout == "insertion-codes":
        # antibody-style numbering: the cysteines share ONE residue number and differ in their insertion code only
        out = []
        for ln in fixtures.peptide_lines(["CYS"] * n, "A", 1):
            if ln.startswith(("ATOM", "HETATM")):
                i = int(ln[22:26]) - 1
                ln = ln[:22] + f"{12:>4d}" + "ABCDEFG"[i] + ln[27:]
            out.append(ln)
        return out, [("A", 12, "ABCDEFG"[i]) for i in range(n)]
    if layout == "spaced":
        seq = []
        keys = []
        for i in range(n):
            seq += ["ALA", "CYS"]
            keys.append(("A", 2 * i + 2))
        seq.append("ALA")
        return fixtures.peptide_lines(seq, "A", 1), keys
    if layout == "two-chains":
        seqs = {"A": ["GLY"], "B": ["GLY"]}
        keys = []
        for i in range(n):
            ch = "AB"[i % 2]
            seqs[ch].append("CYS")
            keys.append((ch, len(seqs[ch])))
        for ch in seqs:
            seqs[ch].append("GLY")
        chains = ["A", "B"] if order[0] % 2 == 0 else ["B", "A"]
        lines = []
        for ci, ch in enumerate(chains):
            lines += fixtures.peptide_lines(seqs[ch], ch, 1, origin=(0.0, 15.0 * (ch == "B"), 0.0))
        return lines, keys
    raise KeyError(layout)


def h_bridges(eng, layout, n, order):
    from pdb2pqr import aa
    from pdb2pqr import biomolecule as biomol

    lines, keys = _build(layout, n, order)
    bm, _defn = fixtures.prepared(lines)
    cys = []
    for key in keys:
        ch, num = key[:2]
        res = [r for r in bm.residues if r.chain_id == ch and r.res_seq == num and (len(key) < 3 or r.ins_code == key[2])]
        assert len(res) == 1 and isinstance(res[0], aa.CYS), (layout, ch, num)
        cys.append(res[0])
    # symbolic metric on the sulfurs
    d = {}
    for i, j in itertools.combinations(range(n), 2):
        d[i, j] = d[j, i] = eng.real(f"d_{i}_{j}")
        eng.assume(d[i, j] > 0)
    for i, j, k in itertools.permutations(range(n), 3):
        if i < k:
            eng.assume(d[i, k] <= d[i, j] + d[j, k])
    index = {tuple(r.get_atom("SG").coords): i for i, r in enumerate(cys)}
    real_distance = biomol.util.distance

    def distance(c1, c2):
        i, j = index.get(tuple(c1)), index.get(tuple(c2))
        if i is None or j is None:
            return real_distance(c1, c2)
        if i == j:
            return 0.0
        return d[i, j]

    class Util:
        def __getattr__(self, name):
            return getattr(biomol.util, name)

    u = Util()
    u.distance = distance
    with patched((biomol, "util", u)):
        bm.update_ss_bridges()
        bm.add_hydrogens()
        bm.set_states()

    def alone(i, excl=()):
        return And(*[d[i, k] >= LIMIT for k in range(n) if k != i and k not in excl])

    state = []
    for i, r in enumerate(cys):
        state.append(f"{i}:{'SS' if r.ss_bonded else '--'}:{r.ffname}:{'HG' if r.has_atom('HG') else 'noHG'}")
    eng.note(" ".join(state))
    for i, j in itertools.combinations(range(n), 2):
        isolated = And(d[i, j] < LIMIT, alone(i, (j,)), alone(j, (i,)))
        ri, rj = cys[i], cys[j]
        ok = (
            bool(ri.ss_bonded)
            and bool(rj.ss_bonded)
            and ri.ss_bonded_partner is rj.get_atom("SG")
            and rj.ss_bonded_partner is ri.get_atom("SG")
            and ri.patches.count("CYX") == 1
            and rj.patches.count("CYX") == 1
            and not ri.has_atom("HG")
            and not rj.has_atom("HG")
            and ri.ffname.endswith("CYX")
            and rj.ffname.endswith("CYX")
        )
        eng.check(Implies(isolated, ok), f"isolated-pair-bonded", note=f"layout={layout} order={order}: pair ({i},{j}) isolated within {LIMIT} but state is {' '.join(state)}")
    for i, r in enumerate(cys):
        free_ok = (not r.ss_bonded) and r.has_atom("HG") and r.ffname.endswith("CYS") and "CYX" not in r.patches and r.ss_bonded_partner is None
        eng.check(Implies(alone(i), free_ok), "free-cys-keeps-thiol", note=f"layout={layout} order={order}: CYS {i} has no sulfur within {LIMIT} but state is {' '.join(state)}")


def h_geometric(eng, n):
    """the sulfur COORDINATES are symbolic (not a stubbed metric): the real util.distance runs on
    them through the numpy subset; bonded iff the Euclidean distance is below the limit"""
    from pdb2pqr import aa, utilities
    from symx import shims

    lines = []
    for i in range(n):
        lines += fixtures.residue_lines("CYS", "ABC"[i], 10 + i, offset=(0.0, 12.0 * i, 0.0)) + ["TER"]
    bm, _ = fixtures.prepared(lines)
    cys = [r for r in bm.residues if isinstance(r, aa.CYS)]
    sg = []
    for i, r in enumerate(cys):
        a = r.get_atom("SG")
        a.x, a.y, a.z = eng.real(f"sg{i}_x"), eng.real(f"sg{i}_y"), eng.real(f"sg{i}_z")
        sg.append(a)
    sh = [(utilities, "np", shims.NP)] if eng.symbolic else []
    with patched(*sh):
        bm.update_ss_bridges()

    def d2(a, b):
        return (a.x - b.x) * (a.x - b.x) + (a.y - b.y) * (a.y - b.y) + (a.z - b.z) * (a.z - b.z)

    L2 = LIMIT * LIMIT
    for i, j in itertools.combinations(range(n), 2):
        others = [k for k in range(n) if k not in (i, j)]
        isolated = And(d2(sg[i], sg[j]) < L2, *[And(d2(sg[i], sg[k]) >= L2, d2(sg[j], sg[k]) >= L2) for k in others])
        ok = bool(cys[i].ss_bonded) and bool(cys[j].ss_bonded) and cys[i].ss_bonded_partner is sg[j] and cys[j].ss_bonded_partner is sg[i] and cys[i].patches.count("CYX") == 1 and cys[j].patches.count("CYX") == 1
        eng.check(Implies(isolated, ok), "isolated-pair-bonded-geometric", note=f"sulfurs {i},{j} closer than {LIMIT} A (and to no third) but not bridged symmetrically")
    for i in range(n):
        alone = And(*[d2(sg[i], sg[k]) >= L2 for k in range(n) if k != i])
        eng.check(Implies(alone, (not cys[i].ss_bonded) and "CYX" not in cys[i].patches), "free-cys-geometric", note=f"CYS {i} has no sulfur within {LIMIT} A but is marked bridged")


def h_pipeline_pair(eng, ff):
    """two cysteines whose sulfurs are 2.04 A apart, through the REAL non_trivial: the names the input gives
    them (CYS / CYX / CYM), a missing (to be rebuilt) SG and the options are symbolic selectors"""
    from pdb2pqr import aa, main

    names = [["CYS", "CYX", "CYM"][eng.choice(f"name{i}", 3)] for i in range(2)]
    missing = eng.choice("missing_sg", 3)  # 0 none, 1 first, 2 second
    debump, opt = eng.flag("debump"), eng.flag("opt")
    # chain position of the cysteine (first / internal / last residue) and - PARSE only - neutral termini
    pos = eng.choice("cys_position", 3)
    neutraln = bool(eng.flag("neutraln")) if ff == "parse" else False
    neutralc = bool(eng.flag("neutralc")) if ff == "parse" else False
    seq = ["ALA", "ALA", "ALA"]
    seq[pos] = "CYS"
    a_lines = fixtures.peptide_lines(seq, "A", 1, ter=False)
    ref = fixtures.pristine_definition().map["CYS"].map
    sg = [ref["SG"].x - 3.8 * pos, ref["SG"].y, ref["SG"].z]
    cb = [ref["CB"].x - 3.8 * pos, ref["CB"].y, ref["CB"].z]
    u = [sg[k] - cb[k] for k in range(3)]
    L = sum(x * x for x in u) ** 0.5
    u = [x / L for x in u]
    P = [sg[k] + 1.02 * u[k] for k in range(3)]
    # a unit vector perpendicular to u
    t = [1.0, 0.0, 0.0] if abs(u[0]) < 0.9 else [0.0, 1.0, 0.0]
    d = sum(t[k] * u[k] for k in range(3))
    w = [t[k] - d * u[k] for k in range(3)]
    Lw = sum(x * x for x in w) ** 0.5
    w = [x / Lw for x in w]
    lines = []
    for ci, (chain, nm) in enumerate(zip("AB", names)):
        for ln in a_lines:
            x, y, z = float(ln[30:38]), float(ln[38:46]), float(ln[46:54])
            if ci == 1:  # rotate by 180 degrees about the axis through P along w
                v = [x - P[0], y - P[1], z - P[2]]
                dw = sum(v[k] * w[k] for k in range(3))
                x, y, z = (P[k] + 2 * dw * w[k] - v[k] for k in range(3))
            num = int(ln[22:26])
            if num == pos + 1:
                ln = ln[:17] + nm + ln[20:]
                if ln[12:16].strip() == "SG" and missing == ci + 1:
                    continue
            lines.append(ln[:21] + chain + ln[22:30] + f"{x:8.3f}{y:8.3f}{z:8.3f}" + ln[54:])
        lines.append("TER")
    bm = None
    aborted = ""
    try:
        bm, defn = fixtures.prepared(lines, neutraln=neutraln, neutralc=neutralc)
        args = fixtures.Args(ff=ff, pka_method=None, debump=debump, opt=opt, neutraln=neutraln, neutralc=neutralc)
        main.non_trivial(args, bm, None, defn, False)
    except (ValueError, KeyError, TypeError, AttributeError, IndexError) as e:
        eng.note(f"names={names} missing={missing}: {type(e).__name__} {str(e)[:60]}")
        if not (bm is not None and isinstance(e, ValueError) and "integ" in str(e)):
            eng.check(True, "loud-failure-tolerated", note=type(e).__name__)
            return
        aborted = " (the run then aborted on the non-integral total charge)"  # parameters were assigned: judge them
    cys = [r for r in bm.residues if isinstance(r, aa.CYS)]
    state = [f"{r.name}:{'SS' if r.ss_bonded else '--'}:{r.ffname}:{'HG' if r.has_atom('HG') else 'noHG'}" for r in cys]
    eng.note(f"names={names} missing={missing} debump={debump} opt={opt} -> {state}")
    from pdb2pqr import utilities

    s0, s1 = cys[0].get_atom("SG"), cys[1].get_atom("SG")
    if s0 is None or s1 is None or utilities.distance(s0.coords, s1.coords) >= LIMIT:
        eng.check(True, "not-within-limit")
        return
    ok = all(bool(r.ss_bonded) and not r.has_atom("HG") and r.ffname.endswith("CYX") for r in cys) and cys[0].ss_bonded_partner is s1 and cys[1].ss_bonded_partner is s0
    unparam = sorted({f"{r.name}{r.res_seq}:{a.name}" for r in cys for a in r.atoms if a.ffcharge is None or a.radius is None})
    eng.check(not unparam, "bridged-cysteines-are-parameterised", note=f"ff={ff}, chain position {pos}, neutraln={neutraln}, neutralc={neutralc}: atoms of the bridged cysteines without parameters (dropped from the output): {unparam[:6]} (states {state}){aborted}")
    want_prefix = {0: "NEUTRAL-N" if neutraln else "N", 1: "", 2: "NEUTRAL-C" if neutralc else "C"}[pos]
    eng.check(all(str(r.ffname) == want_prefix + "CYX" for r in cys), "bridged-cysteine-keeps-its-terminal-parameter-set", note=f"chain position {pos}, neutraln={neutraln}, neutralc={neutralc}: the bridged cysteines are keyed {[str(r.ffname) for r in cys]}, the parameter set of that position is {want_prefix}CYX{aborted}")
    eng.check(ok, "bridged-pair-through-the-pipeline", note=f"sulfurs {utilities.distance(s0.coords, s1.coords):.2f} A apart in the final structure (input names {names}, SG rebuilt: {missing}, chain position {pos}, neutraln={neutraln}, neutralc={neutralc}) but the residues end as {state}{aborted}")


def h_stage_order(eng, ff, pka, ligand):
    """disulfide detection runs on the repaired structure and before hydrogens are added (real driver, stage stubs)"""
    from . import flow

    w = flow.World(eng, "r", False, {}, [])
    w.num_missing = eng.int("num_missing", 0, 100)
    opts = flow.symbolic_options(eng, fixed=dict(ff=ff, pka=pka, ligand=ligand), formatting=dict(whitespace=False, keep_chain=False, include_header=False, ffout=0, pdb_output=0, apbs_input=0))
    eng.assume(And(opts["ph"] >= 0, opts["ph"] <= 14))
    flow.run_driver(w, opts)
    stages = [n for n, _a, _k in w.log]
    if "bm.update_ss_bridges" not in stages:
        eng.check(True, "no-bridge-stage")
        return
    i = stages.index("bm.update_ss_bridges")
    eng.check("bm.repair_heavy" not in stages[i:], "bridges-after-repair", note="update_ss_bridges runs before repair_heavy: a cysteine whose SG is rebuilt is never scanned")
    eng.check("bm.num_missing_heavy" in stages[:i], "bridges-after-repair", note="update_ss_bridges runs before the repair decision")
    eng.check("bm.add_hydrogens" in stages[i:] and "bm.add_hydrogens" not in stages[:i], "bridges-before-hydrogens", note="hydrogens are added before disulfide detection (HG would not be suppressed)")
    eng.check(stages.count("bm.update_ss_bridges") == 1, "bridges-once")


def obligations(tier):
    obs = []
    if tier == "quick":
        plan = [("own-chains", 2), ("own-chains", 3), ("one-chain", 3), ("spaced", 3), ("two-chains", 4), ("own-chains", 5)]  # 5: a three-sulfur cluster next to a clean pair
    else:
        plan = [(lay, n) for lay in LAYOUTS for n in (2, 3, 4, 5)]
    for layout, n in plan:
        if layout in ("own-chains", "two-chains"):
            orders = list(itertools.permutations(range(n))) if layout == "own-chains" else [(0,), (1,)]
            if tier == "quick" or n >= 4:
                orders = [orders[0], orders[-1]]
        else:
            orders = [tuple(range(n))]
        for order in orders:
            tag = "".join(map(str, order))
            obs.append(Obligation(f"bridges-{layout}-n{n}-o{tag}", h_bridges, {"layout": layout, "n": n, "order": list(order)}, group="bridges", time_cap=2400, max_paths=100000))
    for n in (2, 3) if tier == "quick" else (2, 3, 4):
        obs.append(Obligation(f"bridges-insertion-codes-n{n}", h_bridges, {"layout": "insertion-codes", "n": n, "order": list(range(n))}, group="bridges", time_cap=2400, max_paths=100000))
    for ff in ("amber", "parse") if tier == "quick" else ("amber", "parse", "charmm"):
        obs.append(Obligation(f"pipeline-pair-{ff}", h_pipeline_pair, dict(ff=ff), group="pipeline-pair", time_cap=1500))
    for ff, pka, lig in ((0, 0, 0), (1, 1, 0)) if tier == "quick" else [(f, p, l) for f in (0, 1, 2) for p in (0, 1) for l in (0, 1)]:
        obs.append(Obligation(f"stage-order-ff{ff}-pka{pka}-lig{lig}", h_stage_order, dict(ff=ff, pka=pka, ligand=lig), group="stage-order", time_cap=1500, max_paths=100000))
    for n in (2,):  # three sulfurs = three square roots in one query: z3 answered unknown (probed)
        obs.append(Obligation(f"geometric-n{n}", h_geometric, dict(n=n), group="geometric", time_cap=1500))
    return obs


def encoded():
    from pdb2pqr import aa
    from pdb2pqr import biomolecule as biomol

    return [biomol.Biomolecule.update_ss_bridges, biomol.Biomolecule.apply_patch, biomol.Biomolecule.add_hydrogens, biomol.Biomolecule.set_states, aa.CYS.set_state, aa.Amino.set_state]


META = dict(
    stubs=[
        "pdb2pqr.biomolecule.util.distance -> for SG-SG pairs returns the symbolic metric entry d_i_j; all other calls go to the real function",
        "structures are generated from AA.xml template coordinates and read by the real pdb.read_pdb / Biomolecule / set_termini / update_bonds (concrete)",
    ],
    bounds=[
        "N cysteines: quick 2..4, thorough 2..5; SG-SG distances: arbitrary positive reals satisfying the triangle inequality (superset of Euclidean placements)",
        "layouts (enumerated): " + "; ".join(f"{k}: {v}" for k, v in LAYOUTS.items()),
        "file orders: all permutations for own-chains with n<=3, first/last permutation otherwise; chain order A,B / B,A for two-chains",
    ],
    outside=[
        "non-isolated configurations (a sulfur within the limit of two others): the property does not constrain them",
        "in the metric obligations: that util.distance computes the Euclidean distance (the geometric obligations execute the real util.distance on symbolic sulfur coordinates for 2 cysteines)",
        "more than 5 cysteines",
    ],
    assumptions=["bonding limit 2.5 A taken from the property statement; boundary d = 2.5 counts as not bonded on both sides (strict <)"],
    technique="symbolic execution of the real update_ss_bridges/add_hydrogens/set_state on a symbolic distance metric (symx) + SMT verdict per path",
)

MANIFEST = dict(
    text='For C13: Biomolecule.update_ss_bridges + apply_patch + add_hydrogens (HG suppression) + CYS.set_state on 2..4 (thorough 5) real CYS residues in four chain layouts and several file orders, with the SG-SG distances an arbitrary symbolic metric, so every placement around the 2.5 A limit (including the boundary) is covered; a bridged pair through the real non_trivial with input names, a rebuilt SG, the chain position of the cysteine and (PARSE) neutral termini as selectors. Round 5: both partners fully parameterised and keyed with the terminal prefix of their chain position; a three-sulfur cluster next to a clean pair (n = 5) in the quick tier.',
    note='Trusted: z3, symx proxies. util.distance is stubbed for SG-SG pairs (returns the symbolic metric); everything else is the real code on structures generated from AA.xml templates. Non-isolated configurations are unconstrained by the property. N <= 5 cysteines.',
    technique='symbolic execution of real code on z3 Real proxies (symx) + SMT verdict per path',
    design='DESIGN.md section 3 C13',
)
