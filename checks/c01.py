"""C01 - assigned charges and radii are exactly the selected force field's parameters.

K1 (symbolic): real Forcefield.__init__ (DAT half) on rows made of layout
strings: symbolic residue/atom names, symbolic decimals, arbitrary separators.
K2 (symbolic): real Biomolecule.apply_force_field with a force field whose
answers are symbolic (present / absent, arbitrary values): hits carry exactly
the returned numbers, misses stay unparameterised and are never in the hit
list - no defaulting, no borrowing.
K3 (table): state -> force-field residue name for every titration/terminal
state (documented naming), and for every built-in force field every atom of
every (residue, position, state) carries exactly the DAT row of the names the
force field resolves it to (independent DAT parse).
K4 (table): documented .names semantics on user files (a <name> pattern is
matched against the whole canonical name).
"""
from __future__ import annotations

import io as _io
import os
import re

from symx import core, strs
from symx.core import And
from symx.run import REPO, Obligation
from symx.shims import builtin_shims, patched

from . import fixtures

PROP = "C01"

ALPHA = "ABCDGHNOPSTXZ0123'*"
FFS = ["amber", "charmm", "parse", "peoepb", "swanson", "tyl06"]


class _FakeFile:
    def __init__(self, lines):
        self._lines = lines

    def __enter__(self):
        return self

    def __exit__(self, *a):
        return False

    def readlines(self):
        return list(self._lines)

    def read(self):
        return "".join(self._lines)

    def readline(self):
        self._pos = getattr(self, "_pos", 0) + 1
        return self._lines[self._pos - 1] if self._pos <= len(self._lines) else ""

    def __iter__(self):
        return iter(list(self._lines))

    def close(self):
        pass


def h_dat_rows(eng, nrows, seps, res_len, atom_len, with_group, dup):
    """rows of a user parameter file: get_params returns exactly the row's numbers"""
    from pdb2pqr import forcefield

    I, F = (core.sym_int_t, core.sym_float_t) if eng.symbolic else (int, float)
    rows = []
    lines = ["# user supplied parameters\n", "\n"]
    for i in range(nrows):
        if eng.symbolic:
            res = strs.sym_name(eng, f"res{i}", res_len, ALPHA)
            atom = strs.sym_name(eng, f"atom{i}", atom_len, ALPHA)
        else:
            res = "".join(chr(eng.int(f"res{i}_c{k}")) for k in range(res_len))
            atom = "".join(chr(eng.int(f"atom{i}_c{k}")) for k in range(atom_len))
        q = eng.real(f"q{i}")
        r = eng.real(f"r{i}")
        eng.assume(And(q > -10, q < 10, r >= 0, r < 10))
        if dup and i == nrows - 1 and nrows > 1:
            res, atom = rows[0][0], rows[0][1]  # a later row for the same atom
        rows.append((res, atom, q, r))
        sep = seps[i % len(seps)]
        qs, rs = format(q, ".4f"), format(r, ".4f")
        parts = [res, sep, atom, sep, qs, sep, rs]
        if with_group:
            parts += [sep, "CT"]
        parts.append("\n")
        lines.append(strs.fstring(*parts))
        if i == 0:
            lines.append("#ALA  CA  9.9999 9.9999\n")  # comment rows contribute nothing
    names = ["<?xml version='1.0'?>\n", "<ff>\n", "</ff>\n"]

    def fake_open(path, *a, **k):
        return _FakeFile(lines if str(path).endswith(".dat") else names)

    strs.ALLOW_HASH[0] = True  # the residue / atom maps are keyed by layout strings only
    sh = (builtin_shims(forcefield, ("float",)) + [(forcefield, "str", strs.sym_str_t)]) if eng.symbolic else []
    try:
        with patched(*sh, (forcefield, "open", fake_open)):
            try:
                ff = forcefield.Forcefield(None, fixtures.pristine_definition(), "user.dat", "user.names")
            except ValueError as e:
                eng.check(False, "rows-parse", note=f"Forcefield raised ValueError on well-formed rows: {str(e)[:100]}")
                return
            def same_name(i, j):
                if dup and {i, j} == {0, nrows - 1}:
                    return True
                return And(strs._to_sb(rows[i][0] == rows[j][0]), strs._to_sb(rows[i][1] == rows[j][1]))

            for i, (res, atom, q, r) in enumerate(rows):
                # a later row for the same (residue, atom) wins (documented: cumulative files)
                want_q, want_r = q, r
                for j in range(i + 1, nrows):
                    sn = same_name(i, j)
                    want_q, want_r = core.If(sn, rows[j][2], want_q), core.If(sn, rows[j][3], want_r)
                got_q, got_r = ff.get_params(res, atom)
                eng.check(got_q is not None and got_r is not None, "row-found", note=f"row {i}: get_params returned {(got_q, got_r)}")
                if got_q is None or got_r is None:
                    continue
                eng.check(And(core.close(got_q, want_q, 0.00005 + 1e-9), core.close(got_r, want_r, 0.00005 + 1e-9)), "row-values", note=f"row {i}: get_params does not return the row's own charge/radius")
            q9, r9 = ff.get_params("ALA", "CA")
            hit_comment = And(*[core.Not(And(strs._to_sb(rows[i][0] == "ALA"), strs._to_sb(rows[i][1] == "CA"))) for i in range(nrows)])
            eng.check(core.Implies(hit_comment, q9 is None and r9 is None), "comment-rows-ignored", note="a commented-out row produced parameters")
    finally:
        strs.ALLOW_HASH[0] = False


def h_two_loads(eng):
    """the same parameter-file path is read twice in one process with different contents: the second
    force field must carry the second file's numbers (no state survives between loads)"""
    from pdb2pqr import forcefield

    qa, qb = eng.real("q_first_load"), eng.real("q_second_load")
    eng.assume(And(qa > -10, qa < 10, qb > -10, qb < 10))
    names = ["<?xml version='1.0'?>\n", "<ff>\n", "</ff>\n"]
    content = {}

    def fake_open(path, *a, **k):
        return _FakeFile(content["lines"] if str(path).endswith(".dat") else names)

    sh = (builtin_shims(forcefield, ("float",)) + [(forcefield, "str", strs.sym_str_t)]) if eng.symbolic else []
    got = []
    with patched(*sh, (forcefield, "open", fake_open)):
        for q in (qa, qb):
            content["lines"] = [strs.fstring("ALA  CB  ", format(q, ".4f"), " 1.9000\n"), "ALA  CA  0.1000 1.8000\n"]
            ff = forcefield.Forcefield(None, fixtures.pristine_definition(), "same/path/user.dat", "user.names")
            got.append(ff.get_params("ALA", "CB"))
    for (gq, gr), q, tag in zip(got, (qa, qb), ("first", "second")):
        eng.check(gq is not None and core.close(gq, q, 0.00005 + 1e-9), f"{tag}-load-carries-its-own-file", note=f"{tag} load of the same path does not return the charge written in the file at that time")


def h_bad_number(eng, which):
    """a non-numeric charge / radius is an error, never a default"""
    from pdb2pqr import forcefield

    lines = ["ALA  CA  0.1000 1.5000\n", "ALA  CB  " + ("x.yz 1.0000\n" if which == "charge" else "0.2000 abc\n")]
    names = ["<?xml version='1.0'?>\n", "<ff>\n", "</ff>\n"]
    with patched((forcefield, "open", lambda p, *a, **k: _FakeFile(lines if str(p).endswith(".dat") else names))):
        try:
            ff = forcefield.Forcefield(None, fixtures.pristine_definition(), "user.dat", "user.names")
            got = ff.get_params("ALA", "CB")
            eng.check(got == (None, None), "bad-number-not-defaulted", note=f"non-numeric {which}: get_params returned {got}")
        except ValueError:
            eng.check(True, "bad-number-raises")


class _SymFF:
    def __init__(self, eng, sym_atoms):
        self.eng = eng
        self.sym = sym_atoms
        self.answers = {}

    def get_params(self, resname, atomname):
        key = (resname, atomname)
        if key not in self.answers:
            k = len(self.answers)
            if atomname in self.sym:
                have_q = self.eng.flag(f"has_charge_{k}")
                have_r = self.eng.flag(f"has_radius_{k}")
                q = self.eng.real(f"q_{k}", -5, 5) if have_q else None
                r = self.eng.real(f"r_{k}", 0, 5) if have_r else None
            else:
                q, r = 0.25, 1.25
            self.answers[key] = (q, r)
        return self.answers[key]


def h_no_default(eng, sym_atoms):
    """apply_force_field: hit list = atoms with both numbers, carrying exactly them; the rest untouched"""
    bm, _ = fixtures.prepared(fixtures.peptide_lines(["GLY", "ALA"]) + fixtures.residue_lines("WAT", "A", 9, serial0=80, offset=(0.0, 9.0, 0.0), record="HETATM") + ["TER"])
    ff = _SymFF(eng, sym_atoms)
    from pdb2pqr import residue as residue_mod

    # Residue.charge is only read to log a warning about non-integral residues: stubbed (it would
    # render the symbolic sum with %.4f and fork on every digit count)
    with patched((residue_mod.Residue, "charge", property(lambda self: 0.0))):
        hit, miss = bm.apply_force_field(ff)
    atoms = bm.atoms
    eng.check(len(hit) + len(miss) == len(atoms) and not (set(map(id, hit)) & set(map(id, miss))), "partition", note="hit and miss lists do not partition the atoms")
    eng.check([id(a) for a in hit] == [id(a) for a in atoms if any(a is h for h in hit)], "model-order")
    for a in atoms:
        res = a.residue
        name = res.ffname if hasattr(res, "ffname") else res.name
        q, r = ff.answers[(name, a.name)]
        if q is not None and r is not None:
            eng.check(any(a is h for h in hit), "parameterised-atom-is-written", note=f"{a.name}: has parameters but is not in the hit list")
            eng.check(And(core.same(a.ffcharge, q), core.same(a.radius, r)), "exact-parameters", note=f"{a.name}: charge/radius differ from what the force field returned")
        else:
            eng.check(any(a is m for m in miss) and not any(a is h for h in hit), "unparameterised-atom-is-unassigned", note=f"{a.name}: force field has no complete entry (charge {q is not None}, radius {r is not None}) but the atom is in the hit list")
            eng.check(a.ffcharge is None and a.radius is None, "no-default-or-partial-parameters", note=f"{a.name}: no complete entry but charge={a.ffcharge} radius={a.radius} were stored (defaulted/borrowed)")


# ---------------------------------------------------------------------------
# K3: tables
# ---------------------------------------------------------------------------

STATES = {
    # residue: [(patch or None, documented state name)]
    "ASP": [(None, "ASP"), ("ASH", "ASH")],
    "GLU": [(None, "GLU"), ("GLH", "GLH")],
    "CYS": [(None, "CYS"), ("CYM", "CYM"), ("CYX", "CYX")],
    "LYS": [(None, "LYS"), ("LYN", "LYN")],
    "TYR": [(None, "TYR"), ("TYM", "TYM")],
    "ARG": [(None, "ARG"), ("AR0", "AR0")],
    "HIS": [("HIP", "HIP")],
    "ALA": [(None, "ALA")],
    "PRO": [(None, "PRO")],
}
FORMAL = {"ASP": -1, "ASH": 0, "GLU": -1, "GLH": 0, "CYS": 0, "CYM": -1, "CYX": 0, "LYS": 1, "LYN": 0, "TYR": 0, "TYM": -1, "ARG": 1, "AR0": 0, "HIP": 1, "ALA": 0, "PRO": 0}
POS = ["N-terminal", "internal", "C-terminal"]


def _dat_rows(ff):
    path = os.path.join(REPO, "pdb2pqr", "dat", f"{ff.upper()}.DAT")
    rows = {}
    for ln in open(path, encoding="utf-8"):
        if ln.startswith("#"):
            continue
        f = ln.split()
        if len(f) >= 4:
            rows[(f[0], f[1])] = (float(f[2]), float(f[3]))
    return rows


def table_states(ff, residues, neutral=False):
    """documented state naming + every atom carries the DAT row of the names it resolves to + formal charge"""
    from pdb2pqr import forcefield, main

    rows = 0
    violations = []
    samples = []
    dat = _dat_rows(ff)
    for res in residues:
        for patch, state in STATES[res]:
            for pos in range(3):
                rows += 1
                seq = ["ALA", "ALA", "ALA"]
                seq[pos] = res
                case = {"ff": ff, "residue": res, "state": state, "position": POS[pos], "neutral_termini": neutral}
                try:
                    bm, defn = fixtures.prepared(fixtures.peptide_lines(seq), neutraln=neutral, neutralc=neutral)
                    r = bm.residues[pos]
                    if patch:
                        bm.apply_patch(patch, r)
                    args = fixtures.Args(ff=ff, pka_method=None, debump=True, opt=True, neutraln=neutral, neutralc=neutral)
                    result = main.non_trivial(args, bm, None, defn, False)
                except (ValueError, KeyError, TypeError) as e:
                    samples.append({**case, "skipped": f"pipeline raised {type(e).__name__} (state not supported by this force field): loud"}) if len(samples) < 6 else None
                    continue
                prefix = ""
                if pos == 0:
                    prefix = "NEUTRAL-N" if (neutral and res != "PRO") else "N"
                elif pos == 2:
                    prefix = "NEUTRAL-C" if neutral else "C"
                want = prefix + state
                if r.ffname != want:
                    violations.append({"label": "state-name", "values": case, "reproduced": True, "replay_detail": f"force-field residue name {r.ffname}, documented naming gives {want} (patches {r.patches})"})
                missed = [a for a in result["missed_residues"] if a.residue is r]
                ffobj = forcefield.Forcefield(ff, defn, None)
                for a in r.atoms:
                    if any(a is m for m in missed):
                        continue
                    rname, aname = ffobj.get_names(r.ffname, a.name)
                    row = dat.get((rname, aname))
                    if row is None or abs(row[0] - a.ffcharge) > 1e-9 or abs(row[1] - a.radius) > 1e-9:
                        violations.append({"label": "atom-carries-its-dat-row", "values": {**case, "atom": a.name}, "reproduced": True, "replay_detail": f"{r.ffname}:{a.name} written with ({a.ffcharge}, {a.radius}); the force field resolves it to {rname}:{aname} whose DAT row is {row}"})
                        break
                if not missed:
                    formal = FORMAL[state] + (1 if pos == 0 and not neutral else 0) + (-1 if pos == 2 and not neutral else 0)
                    if pos == 0 and neutral and res == "PRO":
                        formal += 1
                    if abs(r.charge - formal) > 1e-3:
                        violations.append({"label": "formal-charge-of-state", "values": case, "reproduced": True, "replay_detail": f"{r.ffname} sums to {r.charge}, the formal charge of the state is {formal}"})
                if len(samples) < 2:
                    samples.append({**case, "ffname": r.ffname, "charge": r.charge})
    return {"table_rows": rows, "distinct": rows, "violations": violations, "samples": samples}


def table_names_semantics():
    """documented semantics of user .names files (docs/source/formats/xml-names.rst): the <name> of a
    residue rule is a regular expression matched against the WHOLE canonical residue name"""
    from pdb2pqr import forcefield

    defn = fixtures.pristine_definition()
    dat = ["DA   N1  -0.7000 1.8000\n", "DA5  N1  -0.5000 1.7000\n", "DA3  N1  -0.6000 1.6000\n", "DAX  N1  -0.1000 1.1000\n", "ALA  CA   0.1000 1.9000\n", "ALA  HB1  0.0100 1.1000\n", "ALA  HB2  0.0200 1.2000\n", "ALX  CA   0.3000 1.3000\n", "XALA CA   0.4000 1.4000\n"]
    cases = [
        ("<residue><name>DA</name><useresname>DAX</useresname></residue>", [("DA", "N1", (-0.1, 1.1)), ("DA5", "N1", (-0.5, 1.7)), ("DA3", "N1", (-0.6, 1.6))]),
        ("<residue><name>AL</name><useresname>ALX</useresname></residue>", [("ALA", "CA", (0.1, 1.9))]),
        ("<residue><name>AL.</name><useresname>ALX</useresname></residue>", [("ALA", "CA", (0.3, 1.3))]),
        ("<residue><name>ALA</name><atom><name>CA</name><useatomname>CA</useatomname></atom></residue>", [("ALA", "CA", (0.1, 1.9)), ("DA", "N1", (-0.7, 1.8))]),
        # atom aliases of one section are applied in document order: a renumbering chain (HB3 -> HB2, then HB2 -> HB1)
        ("<residue><name>ALA</name><atom><name>HB3</name><useatomname>HB2</useatomname></atom><atom><name>HB2</name><useatomname>HB1</useatomname></atom></residue>", [("ALA", "HB3", (0.02, 1.2)), ("ALA", "HB2", (0.01, 1.1)), ("ALA", "CA", (0.1, 1.9))]),
        ("<residue><name>ALA</name><atom><name>HB2</name><useatomname>HB1</useatomname></atom><atom><name>HB3</name><useatomname>HB2</useatomname></atom></residue>", [("ALA", "HB2", (0.01, 1.1)), ("ALA", "HB3", (0.01, 1.1))]),
        # a $group section overlays the atoms of the residue it names onto a residue the parameter file already defines (cumulative)
        ("<residue><name>(AL.)$</name><useresname>X$group</useresname></residue>", [("ALA", "CA", (0.4, 1.4)), ("ALA", "HB1", (0.01, 1.1)), ("DA", "N1", (-0.7, 1.8))]),
    ]
    rows = 0
    violations = []
    for xml, expect in cases:
        names = ["<?xml version='1.0'?>\n<ff>\n" + xml + "\n</ff>\n"]
        with patched((forcefield, "open", lambda p, *a, **k: _FakeFile(dat if str(p).endswith(".dat") else names))):
            ff = forcefield.Forcefield(None, defn, "user.dat", "user.names")
        for res, atom, want in expect:
            rows += 1
            got = ff.get_params(res, atom)
            if got != want:
                violations.append({"label": "names-pattern-matches-whole-name", "values": {"rule": xml, "residue": res, "atom": atom}, "reproduced": True, "replay_detail": f"rule {xml}: {res}:{atom} resolves to {got}, documented semantics give {want}"})
    return {"table_rows": rows, "distinct": rows, "violations": violations, "samples": [{"rule": cases[0][0]}]}


def h_nucleic_state(eng, ff, kind):
    """a nucleotide is keyed by its FINAL state: ribo iff the written residue has O2' (also when the input lacked
    O2' or other atoms and repair rebuilt them), 5' / 3' by chain position"""
    from pdb2pqr import main

    bases = ["RA", "RC", "RG", "RU"] if kind == "rna" else ["DA", "DC", "DG", "DT"]
    mid = bases[eng.choice("middle_base", 4)]
    menu = [(), ("O2'",), ("C2'",), ("O4'",), ("N1",), ("O2'", "C2'")] if kind == "rna" else [(), ("C2'",), ("O4'",), ("N1",)]
    omit = menu[eng.choice("atoms_missing_from_input", len(menu))]
    seq = [bases[2], mid, bases[1]]
    if eng.flag("chain_is_a_single_nucleotide"):
        # a free nucleoside is 5'- and 3'-terminal at once; no shipped force field has parameters for that state, and the
        # one-sided terminal rows (which assume a neighbour on the other side) must not be borrowed for it
        seq, omit = [mid], ()
    lines, serial = [], 1
    for i, name in enumerate(seq):
        rl = fixtures.residue_lines(name, "A", i + 1, serial, (9.0 * i, 0.0, 0.0), omit=omit if (i == 1 and len(seq) == 3) else ())
        serial += len(rl)
        lines += rl
    lines.append("TER")
    try:
        bm, defn = fixtures.prepared(lines)
        args = fixtures.Args(ff=ff, pka_method=None, debump=True, opt=True)
        r = main.non_trivial(args, bm, None, defn, False)
    except (ValueError, KeyError, IndexError) as e:
        eng.check(True, "loud-failure-tolerated", note=f"{type(e).__name__}: {str(e)[:80]}")
        return
    missed = [(a.residue.name, a.name) for a in r["missed_residues"]]
    eng.check(not missed or len(seq) == 1, "every-atom-parameterised", note=f"{seq} with {omit or 'nothing'} missing from the input: unassigned {missed[:5]}")
    for i, x in enumerate(bm.residues):
        ribo = x.has_atom("O2'")
        want = ("R" if ribo else "D") + x.name[-1]
        want += ("5" if i == 0 else "") + ("3" if i == len(seq) - 1 else "")
        eng.check(str(x.ffname) == want, "nucleotide-keyed-by-final-state", note=f"{seq} with {omit or 'nothing'} missing from the input: residue {i + 1} ({'with' if ribo else 'without'} O2') is parameterised as {x.ffname}, final state is {want}")


def h_user_files(eng):
    """the real main_driver in the recording environment of flow.py: the force field that parameterises the run is built
    from exactly the files the user named - --userff and --usernames as given, also --usernames next to a built-in --ff
    (the documented naming map is then the user's file; round 6: a loader helper that dropped the names file unless
    --userff was given fell back to the built-in map silently)"""
    from . import flow

    w = flow.World(eng, "r", False, {}, [])
    opts = flow.symbolic_options(eng, fixed=dict(pka=0, ligand=0), formatting=dict(whitespace=False, keep_chain=False, include_header=False, ffout=0, pdb_output=0, apbs_input=0))
    if opts["ff"] is not None:
        opts["usernames"] = ["user.names", None][eng.choice("usernames_next_to_builtin_ff", 2)]
    exc = flow.run_driver(w, opts)
    builds = [a for n, a, k in w.raw if n == "Forcefield"]
    if exc is not None and not builds:
        eng.check(True, "run-ended-before-loading")
        return
    want_ff = opts["ff"]
    main_builds = [a for a in builds if len(a) >= 4 and ((a[0] is None and want_ff is None) or (a[0] is not None and want_ff is not None and str(a[0]).lower() == str(want_ff).lower()))]  # transform_arguments lower-cases --ff
    eng.check(len(main_builds) >= 1 or bool(opts["clean"]), "force-field-loaded", note=f"no force field built for --ff={want_ff} --userff={opts['userff']} (stages {[n for n, _a, _k in w.raw][:8]})")
    for a in main_builds:
        eng.check(a[2] == opts["userff"] and a[3] == opts["usernames"], "force-field-built-from-the-named-files", note=f"--ff={want_ff} --userff={opts['userff']} --usernames={opts['usernames']}: the force field was built from userff={a[2]} usernames={a[3]}")


def obligations(tier):
    obs = []
    seps_list = [[" "], ["\t"], ["   ", " \t "]] if tier == "quick" else [[" "], ["\t"], ["   ", " \t "], ["  ", "\t\t"]]
    for seps in seps_list:
        for nrows, dup in ((1, False), (2, False), (2, True)) if tier == "quick" else ((1, False), (2, False), (2, True), (3, False), (3, True)):
            for res_len, atom_len in ((3, 2), (4, 4)) if tier == "quick" else ((1, 1), (3, 2), (3, 4), (4, 3), (4, 4), (6, 4)):
                if nrows == 3 and ((res_len, atom_len) != (3, 2) or len(seps) > 1):
                    continue  # three symbolic rows multiply name-partition forks: one shape only
                for with_group in (False, True):
                    if tier == "quick" and with_group and (nrows, res_len) != (2, 3):
                        continue
                    tag = f"rows{nrows}{'dup' if dup else ''}-sep{'+'.join(repr(s)[1:-1] for s in seps)}-r{res_len}a{atom_len}{'-group' if with_group else ''}"
                    obs.append(Obligation(f"dat-{tag}", h_dat_rows, dict(nrows=nrows, seps=seps, res_len=res_len, atom_len=atom_len, with_group=with_group, dup=dup), group="dat", time_cap=1500, max_paths=100000))
    obs.append(Obligation("dat-two-loads-same-path", h_two_loads, {}, group="dat", time_cap=600))
    obs.append(Obligation("dat-bad-charge", h_bad_number, dict(which="charge"), group="dat"))
    obs.append(Obligation("dat-bad-radius", h_bad_number, dict(which="radius"), group="dat"))
    for sym_atoms in (["N", "CB"], ["H1", "O"], ["HA", "C"], ["CA", "H2"]) if tier == "quick" else (["N", "CB"], ["H1", "O"], ["HA", "C"], ["CA", "H2"], ["N", "CA", "O"], ["HA2", "HA3", "H"]):
        obs.append(Obligation(f"no-default-{'+'.join(sym_atoms)}", h_no_default, dict(sym_atoms=sym_atoms), group="no-default", time_cap=1500, max_paths=200000))
    for ff in FFS:
        residues = list(STATES) if tier == "thorough" else ["ASP", "CYS", "LYS", "HIS", "ALA"]
        obs.append(Obligation(f"states-{ff}", table_states, dict(ff=ff, residues=residues), kind="table", group="states"))
    obs.append(Obligation("states-parse-neutral-termini", table_states, dict(ff="parse", residues=list(STATES) if tier == "thorough" else ["ASP", "CYS", "ALA", "PRO"], neutral=True), kind="table", group="states"))
    for ff, kind in (("amber", "rna"), ("amber", "dna")) if tier == "quick" else [(f, k) for k, ffs in (("rna", ("amber", "charmm", "parse", "tyl06")), ("dna", ("amber", "charmm", "tyl06"))) for f in ffs]:
        obs.append(Obligation(f"nucleic-state-{kind}-{ff}", h_nucleic_state, dict(ff=ff, kind=kind), group="nucleic-state", time_cap=1500))
    # a run with --ligand: atoms of other hetero groups that have no force-field entry are neither written nor given values (C16's harness, distinct names)
    from . import c16

    for ff in (1,) if tier == "quick" else (0, 1, 2):
        obs.append(Obligation(f"ligand-run-no-default-ff{ff}", c16.h_transfer, dict(ff=ff, collisions=False), group="no-default", time_cap=1200))
    obs.append(Obligation("names-semantics", table_names_semantics, {}, kind="table", group="names"))
    obs.append(Obligation("user-files-reach-the-force-field", h_user_files, {}, group="user-files", time_cap=900, max_paths=100000))
    return obs


def encoded():
    from pdb2pqr import aa
    from pdb2pqr import biomolecule as biomol
    from pdb2pqr import forcefield

    return [forcefield.Forcefield.__init__, forcefield.Forcefield.get_params, forcefield.ForcefieldHandler.find_matching_names, biomol.Biomolecule.apply_force_field, biomol.Biomolecule.set_states, aa.Amino.set_state, aa.CYS.set_state, aa.HIS.set_state]


META = dict(
    stubs=[
        "dat: pdb2pqr.forcefield.open -> rows made of layout strings (symbolic names, symbolic decimals) + an empty names file; forcefield.float/str -> symx shims; dictionaries keyed by layout strings (constant hash, solver-decided equality)",
        "no-default: a force field object whose get_params returns, per atom, a symbolic choice of (charge present?, radius present?) and arbitrary symbolic values; Residue.charge -> 0.0 (only used for a log message inside apply_force_field)",
        "tables: none (real pipeline, real files) - finite and exhaustive over the listed rows",
    ],
    bounds=[
        "dat: 1-2 rows (thorough 3), residue names 3-4 (thorough 1-6) and atom names 2-4 symbolic characters over '" + ALPHA + "', charge in (-10,10) and radius in [0,10) with four decimals, separators blank / tab / mixed runs, optional group column, optional later duplicate row, comment and blank lines in between",
        "no-default: GLY-ALA + water with three (thorough four) atoms answering symbolically",
        "states: table lemma over force field x {ASP,GLU,CYS,LYS,TYR,ARG,HIS,ALA,PRO} states x chain position (quick: five residues); names semantics: four documented rule shapes",
    ],
    outside=["regex/sax processing of ARBITRARY user .names files (C-level expat/re on symbolic text is out of reach); nucleic acids in the state table", "that the DAT files contain the published force-field values"],
    assumptions=["documented naming: side-chain state name (ASH, GLH, CYM, CYX, LYN, TYM, AR0, HIP), prefixed N / C at chain ends, NEUTRAL-N / NEUTRAL-C with neutral termini (xml-names.rst)"],
    technique="symbolic execution of the real DAT parser on layout strings and of apply_force_field on symbolic force-field answers (symx) + SMT verdict per path; table lemmas for naming/resolution",
)

MANIFEST = dict(
    text="For C01: the real Forcefield.__init__ (DAT half) and get_params on rows whose residue/atom names and decimals are symbolic (layout strings), with arbitrary separators, comment/blank lines, optional group column and later duplicate rows: get_params returns exactly the row's numbers, non-numeric fields raise; the real apply_force_field with a force field answering symbolically (present/absent x arbitrary values per atom): hits carry exactly the returned numbers in model order, atoms without a complete entry stay unparameterised and unassigned (no defaulting or borrowing). Table lemmas: documented state naming, every written atom carries the DAT row of the names the force field resolves it to (independent DAT parse), formal charge per state, documented .names pattern semantics. Also: the same parameter-file path loaded twice with different contents (each load answers from its own file), and nucleotides keyed by their final state (ribo iff the written residue has O2', also after missing atoms were rebuilt; base and missing-atom pattern are selectors). Round 4: atom aliases of one .names section act in document order (renumbering chains), and a run with a MOL2 ligand neither writes nor assigns values to atoms of other hetero groups that have no force-field entry. Round 5: (C-terminal cysteines and every other state keep the documented prefix - state-name table.)",
    note="Trusted: z3, symx layout strings (constant-hash dictionaries keyed by layout strings). Arbitrary user .names files are outside (expat/re on symbolic text); the built-in files are covered by the exhaustive table on template tripeptides.",
    technique="symbolic execution of real code on layout strings / symbolic force-field answers (symx) + SMT verdict per path; table lemmas",
    design="DESIGN.md section 3 C01",
)
