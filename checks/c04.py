"""C04 - input coordinates are preserved; only rigid side-chain rotations move atoms.

S1: the real Debump.set_dihedral_angle runs on a real residue whose atoms ALL
have symbolic coordinates (axis parameterised c = b + L*u).  Each atom is then
classified by a polynomial identity: fixed (new = old) or moved by the one
Rodrigues rotation about the axis bond (new = b + Rod(u,C,S)(old - b)).
S2: Rod is a proper rotation fixing u (C15's lemma, repeated here).
S3: finite conditions on the classification: no backbone / terminal-cap atom
moves; every bond between a moved and a fixed atom ends on the axis.  S2+S3 =>
all bond lengths and angles among the atoms are unchanged, for all coordinates
and all angles.
S5: option gating (clean / assign-only / nodebump+noopt) on the real driver.
S6: census of coordinate writers in the package.
The same classification serves C05 (hydrogens must travel with their parents).
"""
from __future__ import annotations

import ast
import glob
import os

import z3

from symx import core, lemma, shims
from symx.core import And, Implies, Not, Or
from symx.run import REPO, Obligation
from symx.shims import patched

from . import fixtures, flow

PROP = "C04"

AMINO = ["ARG", "ASN", "ASP", "CYS", "GLN", "GLU", "HIS", "ILE", "LEU", "LYS", "MET", "PHE", "SER", "THR", "TRP", "TYR", "VAL", "PRO", "ALA", "GLY"]
POSITIONS = {"nterm": 0, "internal": 1, "cterm": 2}
BACKBONE_CAP = {"N", "CA", "C", "O", "OXT"}


def _cross(a, b):
    return [a[1] * b[2] - a[2] * b[1], a[2] * b[0] - a[0] * b[2], a[0] * b[1] - a[1] * b[0]]


def _dot(a, b):
    return sum((x * y for x, y in zip(a, b)), 0)


class _CellsLog:
    def __init__(self):
        self.log = []

    def remove_cell(self, atom):
        self.log.append(("remove", atom.name))

    def add_cell(self, atom):
        self.log.append(("add", atom.name))


ATOM_ORDER = [None]  # listing order of the target residue's atom records in the input: None (template) / "alphabetical" / "reversed"


def _peptide(seq, idx):
    lines = fixtures.peptide_lines(seq)
    order = ATOM_ORDER[0]
    if order:
        mine = [i for i, ln in enumerate(lines) if ln.startswith("ATOM") and int(ln[22:26]) == idx + 1]
        block = [lines[i] for i in mine]
        block = sorted(block, key=lambda ln: ln[12:16].strip()) if order == "alphabetical" else list(reversed(block))
        for i, ln in zip(mine, block):
            lines[i] = ln
    return lines


TWIN = [False]  # the Debump object has just rotated a residue with the same chain and number but another insertion code
WARM = [False]  # the Debump object already served a pass on the heavy-atom structure (as in main: debump, add hydrogens, debump)
_WARMED = {}


def _new_debump(bm):
    """the Debump object for this structure: a fresh one, or - WARM - the one that was used before hydrogens were added"""
    from pdb2pqr import debump

    return _WARMED.pop(id(bm), None) or debump.Debump(bm)


def _setup(resname, position, neutral):
    seq = ["ALA", "ALA", "ALA"]
    idx = POSITIONS[position]
    seq[idx] = resname
    if TWIN[0]:
        seq[0] = resname  # becomes the residue with the same number and insertion code "A" (see below)
    bm, _ = fixtures.prepared(_peptide(seq, idx), neutraln=neutral, neutralc=neutral)
    if bm.num_missing_heavy:
        bm.repair_heavy()
    if WARM[0]:
        from pdb2pqr import cells as cells_mod
        from pdb2pqr import debump
        from pdb2pqr.config import CELL_SIZE

        deb = debump.Debump(bm)
        deb.cells = cells_mod.Cells(CELL_SIZE)
        deb.cells.assign_cells(bm)
        bm.update_internal_bonds()
        bm.calculate_dihedral_angles()
        bm.set_reference_distance()
        r0 = bm.residues[idx]
        for k in range(len(r0.reference.dihedrals)):
            if k < len(r0.dihedrals) and r0.dihedrals[k] is not None:
                start = r0.dihedrals[k]
                deb.score_dihedral_angle(r0, k)
                deb.set_dihedral_angle(r0, k, start + 5.0)
                deb.set_dihedral_angle(r0, k, start)
            else:
                # a torsion whose fourth atom is a hydrogen that does not exist yet: scoring it is legal (its rotating
                # group is empty for now); whatever the object remembers from this must not survive hydrogen addition
                try:
                    deb.score_dihedral_angle(r0, k)
                except (KeyError, ValueError, TypeError, AttributeError):
                    pass
        _WARMED[id(bm)] = deb
    bm.add_hydrogens()
    bm.update_internal_bonds()
    bm.calculate_dihedral_angles()
    bm.set_reference_distance()
    if TWIN[0]:
        # a neighbour of the same type carries the SAME residue number and chain, told apart by its insertion code only;
        # the Debump object has just turned every torsion of that neighbour (same pivot names) and kept the result
        from pdb2pqr import cells as cells_mod
        from pdb2pqr import debump
        from pdb2pqr.config import CELL_SIZE

        twin, target = bm.residues[0], bm.residues[idx]
        twin.res_seq, twin.ins_code = target.res_seq, "A"
        for a in twin.atoms:
            a.res_seq, a.ins_code = target.res_seq, "A"
        deb = debump.Debump(bm)
        deb.cells = cells_mod.Cells(CELL_SIZE)
        deb.cells.assign_cells(bm)
        for k in range(len(twin.reference.dihedrals)):
            if k < len(twin.dihedrals) and twin.dihedrals[k] is not None:
                deb.score_dihedral_angle(twin, k)
                deb.set_dihedral_angle(twin, k, twin.dihedrals[k] + 7.0)
        _WARMED[id(bm)] = deb
    return bm, bm.residues[idx]


def symbolic_steps(resname, position, neutral, steps):
    """Run the real set_dihedral_angle for each step on ONE Debump object with
    all coordinates and angles symbolic.  Per step: F (fixed), M (moved by the
    single right-handed rotation about the CURRENT axis bond), U (anything
    else, incl. a stale/wrong axis), dihedral atom names."""
    from pdb2pqr import debump, quatfit, utilities

    bm, res = _setup(resname, position, neutral)
    stats = {"sat": 0, "unsat": 0, "unknown": 0}
    results = []
    inconclusive = []
    with lemma.Session() as S:
        for a in res.atoms:
            a.x, a.y, a.z = (S.real(f"{a.name}_{k}") for k in "xyz")
        deb = _new_debump(bm)
        deb.cells = _CellsLog()
        state = {}

        def norm(v):
            w = [S.real(f"w{state['n']}_{k}") for k in range(3)]
            lam = S.real(f"lam{state['n']}")
            S.assume(_dot(w, w) == 1)
            S.assume(lam > 0)
            for k in range(3):
                S.assume(core.SymReal(core.to_real_term(v[k])) == lam * w[k])
            state["w"] = w
            state["v"] = list(v)
            return list(w)

        for n, k in enumerate(steps):
            names = res.reference.dihedrals[k].split()
            C, Sn = S.real(f"C{n}"), S.real(f"S{n}")
            S.assume(C * C + Sn * Sn == 1)
            state["n"] = n
            math_q = type("M", (), {"pi": 3.141592653589793, "cos": staticmethod(lambda x, C=C: C), "sin": staticmethod(lambda x, Sn=Sn: Sn)})
            old = {a.name: [a.x, a.y, a.z] for a in res.atoms}
            elsewhere = [(r_, a, (a.x, a.y, a.z)) for r_ in bm.residues if r_ is not res for a in r_.atoms]
            b = old[names[1]]
            mark = len(deb.cells.log)
            with patched((quatfit, "math", math_q), (quatfit, "normalize", norm), (utilities, "np", shims.NP), (utilities, "dihedral", lambda *a: 0.0), (debump, "util", utilities)):
                deb.set_dihedral_angle(res, k, S.real(f"angle{n}"))
            w = state["w"]
            constraints = S.constraints()
            F, M, U = [], [], []
            cur_axis = [old[names[2]][j] - b[j] for j in range(3)]
            r = lemma.prove(constraints, [(f"step{n} axis[{j}]", core.to_real_term(state["v"][j]) == core.to_real_term(cur_axis[j])) for j in range(3)], timeout_s=60, cross_check=False)
            for q in stats:
                stats[q] += r["queries"].get(q, 0)
            axis_ok = not r["refuted"] and not r["inconclusive"]
            for a in res.atoms:
                new = [a.x, a.y, a.z]
                o = old[a.name]
                if all(new[j] is o[j] for j in range(3)):
                    F.append(a.name)
                    continue
                rel = [o[j] - b[j] for j in range(3)]
                uxp = _cross(w, rel)
                up = _dot(w, rel)
                want = [b[j] + C * rel[j] + Sn * uxp[j] + (1 - C) * up * w[j] for j in range(3)]
                r = lemma.prove(constraints, [(f"step{n} {a.name}[{j}]", core.to_real_term(new[j]) == core.to_real_term(want[j])) for j in range(3)], timeout_s=60, cross_check=False)
                for q in stats:
                    stats[q] += r["queries"].get(q, 0)
                if r["inconclusive"]:
                    inconclusive.append(f"step {n} {a.name}: {r['inconclusive'][0]}")
                    U.append(a.name)
                elif r["refuted"] or not axis_ok:
                    U.append(a.name)
                else:
                    M.append(a.name)
            others = [f"{r_.name} {r_.res_seq}{r_.ins_code} {a.name}" for r_, a, o in elsewhere if not (a.x is o[0] and a.y is o[1] and a.z is o[2])]
            results.append(dict(F=F, M=M, U=U, names=names, axis_ok=axis_ok, cells=deb.cells.log[mark:], others=others))
    return dict(steps=results, res=res, bm=bm, stats=stats, inconclusive=inconclusive)


def classify(resname, position, anglenum, neutral=False, with_h=True):
    r = symbolic_steps(resname, position, neutral, [anglenum])
    st = r["steps"][0]
    return dict(F=st["F"], M=st["M"], U=st["U"], res=r["res"], names=st["names"], cells=st["cells"], stats=r["stats"], bm=r["bm"], axis_ok=st["axis_ok"], inconclusive=r["inconclusive"], others=st["others"])


def _bonds(res):
    out = set()
    for a in res.atoms:
        for q in a.bonds:
            if q.residue is res:
                out.add(frozenset((a.name, q.name)))
    return [tuple(sorted(x)) for x in out if len(x) == 2]


def _concrete_demo(resname, position, anglenum, neutral, moved_atom, fixed_atom):
    """Replay on floats through the real set_dihedral_angle: does the distance
    between the two bonded atoms change?"""
    from pdb2pqr import debump, utilities

    seq = ["ALA", "ALA", "ALA"]
    idx = POSITIONS[position]
    seq[idx] = resname
    bm, _res = _setup(resname, position, neutral)
    deb = _new_debump(bm)
    from pdb2pqr import cells as cells_mod
    from pdb2pqr.config import CELL_SIZE

    deb.cells = cells_mod.Cells(CELL_SIZE)
    deb.cells.assign_cells(bm)
    bm.update_internal_bonds()
    bm.calculate_dihedral_angles()
    bm.set_reference_distance()
    res = bm.residues[idx]
    p, q = res.get_atom(moved_atom), res.get_atom(fixed_atom)
    if p is None or q is None or res.dihedrals[anglenum] is None:
        return None
    d0 = utilities.distance(p.coords, q.coords)
    before = {a.name: tuple(a.coords) for a in res.atoms}
    deb.set_dihedral_angle(res, anglenum, res.dihedrals[anglenum] + 67.0)
    d1 = utilities.distance(p.coords, q.coords)
    moved = [a.name for a in res.atoms if max(abs(x - y) for x, y in zip(a.coords, before[a.name])) > 1e-6]
    return d0, d1, moved


def _angle_demo(resname, position, anglenum, neutral):
    """concrete replay: which heavy-atom bond angles of the residue change under the torsion change?"""
    from pdb2pqr import cells as cells_mod
    from pdb2pqr import debump, utilities
    from pdb2pqr.config import CELL_SIZE

    bm, res = _setup(resname, position, neutral)
    deb = _new_debump(bm)
    deb.cells = cells_mod.Cells(CELL_SIZE)
    deb.cells.assign_cells(bm)
    bonds = [bd for bd in _bonds(res) if not res.get_atom(bd[0]).is_hydrogen and not res.get_atom(bd[1]).is_hydrogen]
    angles = []
    for b1 in bonds:
        for b2 in bonds:
            if b1 < b2 and set(b1) & set(b2):
                v = (set(b1) & set(b2)).pop()
                p, q = (set(b1) - {v}).pop(), (set(b2) - {v}).pop()
                angles.append((p, v, q))
    a0 = {t: utilities.angle(res.get_atom(t[0]).coords, res.get_atom(t[1]).coords, res.get_atom(t[2]).coords) for t in angles}
    deb.set_dihedral_angle(res, anglenum, res.dihedrals[anglenum] + 67.0)
    changed = []
    for t in angles:
        a1 = utilities.angle(res.get_atom(t[0]).coords, res.get_atom(t[1]).coords, res.get_atom(t[2]).coords)
        if abs(a1 - a0[t]) > 1e-4:
            changed.append(f"{t[0]}-{t[1]}-{t[2]} {a0[t]:.1f} -> {a1:.1f} deg")
    return "; ".join(changed[:3])


def _others_demo(resname, position, anglenum, neutral):
    """concrete replay for S3(d): same set-up, the real set_dihedral_angle by +40 degrees on floats"""
    from pdb2pqr import utilities

    bm, res = _setup(resname, position, neutral)
    deb = _new_debump(bm)
    if getattr(deb, "cells", None) is None:
        deb.cells = _CellsLog()
    names = res.reference.dihedrals[anglenum].split()
    before = {(id(r_), a.name): tuple(a.coords) for r_ in bm.residues for a in r_.atoms}
    start = res.dihedrals[anglenum]
    deb.set_dihedral_angle(res, anglenum, start + 40.0)
    moved = [f"{r_.name} {r_.res_seq}{r_.ins_code} {a.name} by {float(utilities.distance(a.coords, before[(id(r_), a.name)])):.3f} A" for r_ in bm.residues if r_ is not res for a in r_.atoms if utilities.distance(a.coords, before[(id(r_), a.name)]) > 1e-6]
    own = float(utilities.distance(res.get_atom(names[3]).coords, before[(id(res), names[3])]))
    if moved or own < 1e-6:
        return f"atoms of other residues moved: {moved[:3]}; {res.name} {names[3]} moved by {own:.3f} A"
    return None


def run_classification(resname, position, neutral=False, heavy_only=True, prop="C04", order=None, warm=False, twin=False):
    """lemma obligation for one residue at one chain position: all dihedrals."""
    ATOM_ORDER[0] = order
    WARM[0] = warm
    TWIN[0] = twin
    try:
        return _run_classification(resname, position, neutral, heavy_only, prop)
    finally:
        ATOM_ORDER[0] = None
        WARM[0] = False
        TWIN[0] = False
        _WARMED.clear()


def _run_classification(resname, position, neutral=False, heavy_only=True, prop="C04"):
    out = {"lemma_queries": {"sat": 0, "unsat": 0, "unknown": 0}, "lemma_solver_s": 0.0, "distinct": 0, "violations": [], "inconclusive": [], "samples": []}
    seq = ["ALA", "ALA", "ALA"]
    seq[POSITIONS[position]] = resname
    bm0, _ = fixtures.prepared(fixtures.peptide_lines(seq), neutraln=neutral, neutralc=neutral)
    ndih = len(bm0.residues[POSITIONS[position]].reference.dihedrals)
    import time

    for anglenum in range(ndih):
        t0 = time.time()
        try:
            c = classify(resname, position, anglenum, neutral)
        except ValueError as e:
            out["samples"].append({"dihedral": anglenum, "skipped": f"set_dihedral_angle raised ValueError ({e}): loud"})
            continue
        out["lemma_solver_s"] += time.time() - t0
        for k in out["lemma_queries"]:
            out["lemma_queries"][k] += c["stats"][k]
        res, names = c["res"], c["names"]
        out["distinct"] += len(res.atoms)
        axis = {names[1], names[2]}
        if len(out["samples"]) < 3:
            out["samples"].append({"residue": resname, "position": position, "dihedral": " ".join(names), "fixed": c["F"], "rotated": c["M"]})
        case = {"residue": resname, "position": position, "neutral_termini": neutral, "dihedral": " ".join(names)}
        if c["inconclusive"]:
            out["inconclusive"] += [f"{resname} {position} [{' '.join(names)}]: {m}" for m in c["inconclusive"]]
        elif c["U"]:
            changed = _sequence_demo(resname, position, neutral, [anglenum])
            if changed:
                bd, (d0, d1) = next(iter(changed.items()))
                out["violations"].append({"label": "rotation-not-about-current-axis", "values": {**case, "atoms": c["U"]}, "note": "", "reproduced": True, "replay_detail": f"[{' '.join(names)}] moves {c['U']} by something other than a rotation about the {names[1]}-{names[2]} bond; concrete replay: bond {bd[0]}-{bd[1]} {d0:.3f} A -> {d1:.3f} A"})
            else:
                out["inconclusive"].append(f"{resname} {position} [{' '.join(names)}]: atoms {c['U']} are neither fixed nor rotated about the axis bond, but the concrete replay keeps all bond lengths")
        is_h = lambda n: res.get_atom(n).is_hydrogen
        # S3(d): a torsion change of one residue writes no coordinate of any other residue, and it does turn the residue's own
        # fourth torsion atom (otherwise the requested angle is not realised: the rotating group was taken from elsewhere)
        if c["others"] or (names[3] not in c["M"] and names[3] not in c["U"]):
            demo = _others_demo(resname, position, anglenum, neutral)
            what = f"[{' '.join(names)}]: atoms of other residues written: {c['others'][:4]}; the torsion's own fourth atom {names[3]} {'turns' if names[3] in c['M'] else 'stays'}"
            if demo:
                out["violations"].append({"label": "torsion-change-confined-to-its-residue", "values": case, "note": "", "reproduced": True, "replay_detail": f"{what}; concrete replay: {demo}"})
            else:
                out["inconclusive"].append(f"{case}: {what}, but the concrete replay moves no atom of another residue and realises the angle")
        # S3(a): no backbone or terminal-cap atom moves
        if prop == "C04":
            for n in c["M"]:
                if n in BACKBONE_CAP:
                    demo = _concrete_demo(resname, position, anglenum, neutral, n, "C" if n == "OXT" else "CA")
                    ok = demo and abs(demo[0] - demo[1]) > 1e-6
                    v = {"label": "backbone-or-cap-atom-moves", "values": {**case, "atom": n}, "note": "", "reproduced": bool(ok), "replay_detail": f"{n} is rotated with the side chain about {names[1]}-{names[2]}: concrete run {demo[0]:.3f} A -> {demo[1]:.3f} A to its bonded neighbour; moved atoms {demo[2]}" if demo else "no concrete demo"}
                    (out["violations"] if ok else out["inconclusive"]).append(v if ok else f"{case} {n}: classification says moved, concrete replay shows no distortion")
        # S3(0): the rotation axis is a bond of the residue (a torsion definition whose atoms 2-3 are not bonded rotates about a non-bond line)
        bonded_names = {frozenset(bd) for bd in _bonds(res)}
        if frozenset((names[1], names[2])) not in bonded_names and prop == "C04":
            demo = _angle_demo(resname, position, anglenum, neutral)
            out["violations"].append({"label": "axis-is-not-a-bond", "values": case, "note": "", "reproduced": bool(demo), "replay_detail": f"torsion [{' '.join(names)}] rotates about the line {names[1]}...{names[2]}, which is not a bond of {resname}: {demo}"}) if demo else out["inconclusive"].append(f"{case}: axis {names[1]}-{names[2]} is not a bond but the concrete replay keeps all bond angles")
        # S3(c): bond angles at the pivot: every FIXED heavy neighbour of an axis atom must be the other axis atom or the angle to a moved neighbour changes
        if prop == "C04":
            for ax, other in ((names[2], names[1]), (names[1], names[2])):
                nb = [q for bd in _bonds(res) if ax in bd for q in bd if q != ax]
                moved_nb = [q for q in nb if q in c["M"]]
                fixed_nb = [q for q in nb if q in c["F"] and q != other and not is_h(q)]
                if moved_nb and fixed_nb and ax == names[2]:
                    demo = _angle_demo(resname, position, anglenum, neutral)
                    if demo:
                        out["violations"].append({"label": "bond-angle-changed-by-rotation", "values": {**case, "vertex": ax, "fixed": fixed_nb, "moved": moved_nb}, "note": "", "reproduced": True, "replay_detail": f"[{' '.join(names)}]: {moved_nb} rotate about {names[1]}-{names[2]} while {fixed_nb}, also bonded to {ax}, stay and are not on the axis: {demo}"})
                    else:
                        out["inconclusive"].append(f"{case}: angle condition fails at {ax} but the concrete replay keeps all bond angles")
        # S3(b): every bond between a moved and a fixed atom ends on the axis
        for p, q in _bonds(res):
            for mv, fx in ((p, q), (q, p)):
                if mv in c["M"] and fx in c["F"] and fx not in axis:
                    heavy = not is_h(mv) and not is_h(fx)
                    if (prop == "C04") != heavy:
                        continue  # heavy-heavy bonds are C04's, bonds with a hydrogen are C05's
                    if prop == "C04" and mv in BACKBONE_CAP:
                        continue  # already reported above
                    demo = _concrete_demo(resname, position, anglenum, neutral, mv, fx)
                    ok = demo and abs(demo[0] - demo[1]) > 1e-6
                    label = "bond-torn-by-rotation" if prop == "C04" else "hydrogen-detached-from-parent"
                    v = {"label": label, "values": {**case, "atom": mv, "bonded_to": fx}, "note": "", "reproduced": bool(ok), "replay_detail": f"{mv} rotates about {names[1]}-{names[2]} but its bonded neighbour {fx} stays and is not on the axis: concrete run bond {demo[0]:.3f} A -> {demo[1]:.3f} A" if demo else "no concrete demo"}
                    if ok:
                        out["violations"].append(v)
                    else:
                        out["inconclusive"].append(f"{case} {mv}-{fx}: classification says the bond is torn, concrete replay shows no change")
        # C14 protocol at this call site: every moved atom is bracketed by remove/add
        log = c["cells"]
        for n in c["M"]:
            if log.count(("remove", n)) != 1 or log.count(("add", n)) != 1 or log.index(("remove", n)) > log.index(("add", n)):
                out["violations"].append({"label": "cell-protocol", "values": {**case, "atom": n}, "note": "", "reproduced": True, "replay_detail": f"{n} moved without a remove_cell/add_cell bracket: {log}"})
    return out


def _sequence_demo(resname, position, neutral, steps):
    """concrete replay of a torsion sequence through the real code: which
    intra-residue bond lengths changed?"""
    from pdb2pqr import cells as cells_mod
    from pdb2pqr import debump, utilities
    from pdb2pqr.config import CELL_SIZE

    bm, res = _setup(resname, position, neutral)
    deb = _new_debump(bm)
    deb.cells = cells_mod.Cells(CELL_SIZE)
    deb.cells.assign_cells(bm)
    bonds = _bonds(res)
    d0 = {bd: utilities.distance(res.get_atom(bd[0]).coords, res.get_atom(bd[1]).coords) for bd in bonds}
    for n, k in enumerate(steps):
        deb.set_dihedral_angle(res, k, res.dihedrals[k] + (41.0, 53.0, 67.0, 29.0)[n % 4])
    return {bd: (d0[bd], utilities.distance(res.get_atom(bd[0]).coords, res.get_atom(bd[1]).coords)) for bd in bonds if abs(d0[bd] - utilities.distance(res.get_atom(bd[0]).coords, res.get_atom(bd[1]).coords)) > 1e-6}


def run_sequence(resname, position, steps, neutral=False):
    """several torsion changes in a row on one Debump object (all coordinates
    and all angles symbolic): every step must be a rotation about the CURRENT
    position of its axis bond."""
    import time

    out = {"lemma_queries": {"sat": 0, "unsat": 0, "unknown": 0}, "lemma_solver_s": 0.0, "distinct": 0, "violations": [], "inconclusive": [], "samples": []}
    t0 = time.time()
    r = symbolic_steps(resname, position, neutral, steps)
    out["lemma_solver_s"] = time.time() - t0
    out["lemma_queries"] = r["stats"]
    res = r["res"]
    case = {"residue": resname, "position": position, "steps": [res.reference.dihedrals[k] for k in steps]}
    out["distinct"] = sum(len(st["M"]) + len(st["U"]) for st in r["steps"])
    out["inconclusive"] += [f"{case}: {m}" for m in r["inconclusive"]]
    bad = [(n, st) for n, st in enumerate(r["steps"]) if st["U"]]
    out["samples"].append({**case, "moved_per_step": [st["M"] for st in r["steps"]], "steps_not_about_current_axis": [(n, st["U"]) for n, st in bad]})
    if bad and not r["inconclusive"]:
        changed = _sequence_demo(resname, position, neutral, steps)
        n, st = bad[0]
        if changed:
            bd, (d0, d1) = next(iter(changed.items()))
            out["violations"].append({"label": "rotation-not-about-current-axis", "values": {**case, "step": n, "atoms": st["U"]}, "note": "", "reproduced": True, "replay_detail": f"step {n} ({' '.join(st['names'])}) moves {st['U']} by something other than a rotation about the current {st['names'][1]}-{st['names'][2]} bond (axis current: {st['axis_ok']}); concrete replay: bond {bd[0]}-{bd[1]} {d0:.3f} A -> {d1:.3f} A ({len(changed)} bonds changed)"})
        else:
            out["inconclusive"].append(f"{case}: step {n} is not a rotation about the current axis for {st['U']} but the concrete replay keeps all bond lengths")
    return out


# ---------------------------------------------------------------------------
# S4: flips (ASN / GLN / HIS): real Flip.__init__ / fix_flip / finalize / complete
# ---------------------------------------------------------------------------


def run_flip(resname, position, outcome):
    """outcome: 'undecided' (complete() without a hydrogen bond found), 'keep' (fix_flip on an
    original-position atom), 'flip' (fix_flip on a flipped atom).  All coordinates symbolic."""
    import time

    from pdb2pqr import debump, hydrogens, quatfit, utilities
    from pdb2pqr.hydrogens import structures as hs

    out = {"lemma_queries": {"sat": 0, "unsat": 0, "unknown": 0}, "lemma_solver_s": 0.0, "distinct": 0, "violations": [], "inconclusive": [], "samples": []}
    t0 = time.time()
    bm, res = _setup(resname, position, False)
    case = {"residue": resname, "position": position, "outcome": outcome}
    deb = debump.Debump(bm)
    routines = hydrogens.HydrogenRoutines(deb, hydrogens.create_handler())
    optinstance = routines.is_optimizeable(res)
    if optinstance is None or optinstance.opttype != "Flip":
        out["inconclusive"].append(f"{case}: residue is not flippable")
        return out
    names0 = [a.name for a in res.atoms]
    with lemma.Session() as S:
        for a in res.atoms:
            a.x, a.y, a.z = (S.real(f"{a.name}_{k}") for k in "xyz")
        old = {a.name: [a.x, a.y, a.z] for a in res.atoms}
        deb.cells = _CellsLog()
        state = {}

        def norm(v):
            w = [S.real(f"w_{k}") for k in range(3)]
            lam = S.real("lam")
            S.assume(_dot(w, w) == 1)
            S.assume(lam > 0)
            for k in range(3):
                S.assume(core.SymReal(core.to_real_term(v[k])) == lam * w[k])
            state["w"] = w
            state["v"] = list(v)
            return list(w)

        minus1, zero = core.SymReal(z3.RealVal(-1)), core.SymReal(z3.RealVal(0))
        math_q = type("M", (), {"pi": 3.141592653589793, "cos": staticmethod(lambda x: minus1), "sin": staticmethod(lambda x: zero)})  # a flip is exactly 180 degrees
        names = optinstance.optangle.split()
        b = old[names[1]]
        from pdb2pqr import structures as structures_mod

        # Atom.__str__ is only used in a debug message of fix_flip (it would render symbolic coordinates)
        with patched((quatfit, "math", math_q), (quatfit, "normalize", norm), (utilities, "np", shims.NP), (utilities, "dihedral", lambda *a: 0.0), (debump, "util", utilities), (structures_mod.Atom, "__str__", lambda self: f"<atom {self.name}>")):
            flip = hs.Flip(res, optinstance, deb)
            moved_names = [n[:-4] for n in (a.name for a in res.atoms) if n.endswith("FLIP")]
            if outcome == "keep" and moved_names:
                flip.fix_flip(res.get_atom(moved_names[0] + "FLIP"))
            elif outcome == "flip" and moved_names:
                flip.fix_flip(res.get_atom(moved_names[0]))
            flip.complete()
        constraints = S.constraints()
        final_names = [a.name for a in res.atoms]
        if sorted(final_names) != sorted(names0):
            out["violations"].append({"label": "flip-atom-set", "values": case, "note": "", "reproduced": True, "replay_detail": f"atoms after the flip machinery completed: {sorted(set(final_names) ^ set(names0))} differ from before"})
            return out
        w = state.get("w")
        cur_axis = [old[names[2]][j] - b[j] for j in range(3)]
        goals = [(f"axis[{j}] is the {names[1]}-{names[2]} bond", state["v"][j], cur_axis[j]) for j in range(3)]
        for a in res.atoms:
            new = [a.x, a.y, a.z]
            o = old[a.name]
            if outcome == "flip" and a.name in moved_names:
                rel = [o[j] - b[j] for j in range(3)]
                up = _dot(w, rel)
                want = [b[j] - rel[j] + 2 * up * w[j] for j in range(3)]  # rotation by 180 degrees about the axis
                goals += [(f"{a.name}[{j}] = 180-degree rotation about the axis", new[j], want[j]) for j in range(3)]
            else:
                goals += [(f"{a.name}[{j}] back at its input position", new[j], o[j]) for j in range(3)]
    r = lemma.prove(constraints, [(lab, core.to_real_term(l) == core.to_real_term(rr)) for lab, l, rr in goals], timeout_s=60, cross_check=False)
    out["lemma_queries"] = r["queries"]
    out["lemma_solver_s"] = time.time() - t0
    out["distinct"] = len(goals)
    out["inconclusive"] += r["inconclusive"]
    out["samples"].append({**case, "moved": moved_names})
    if r["refuted"]:
        lab = r["refuted"][0]["label"]
        demo = _flip_demo(resname, position, outcome)
        if demo:
            out["violations"].append({"label": "flip-is-a-rigid-180-rotation-or-nothing", "values": {**case, "goal": lab}, "note": "", "reproduced": True, "replay_detail": f"{lab} fails; concrete replay: {demo}"})
        else:
            out["inconclusive"].append(f"{case}: '{lab}' refuted but the concrete replay keeps every bond length and every unflipped atom in place")
    return out


def _flip_demo(resname, position, outcome):
    from pdb2pqr import cells as cells_mod
    from pdb2pqr import debump, hydrogens, utilities
    from pdb2pqr.config import CELL_SIZE
    from pdb2pqr.hydrogens import structures as hs

    bm, res = _setup(resname, position, False)
    deb = debump.Debump(bm)
    deb.cells = cells_mod.Cells(CELL_SIZE)
    deb.cells.assign_cells(bm)
    routines = hydrogens.HydrogenRoutines(deb, hydrogens.create_handler())
    opt = routines.is_optimizeable(res)
    before = {a.name: tuple(a.coords) for a in res.atoms}
    bonds = _bonds(res)
    d0 = {bd: utilities.distance(before[bd[0]], before[bd[1]]) for bd in bonds}
    flip = hs.Flip(res, opt, deb)
    moved = [a.name[:-4] for a in res.atoms if a.name.endswith("FLIP")]
    if outcome == "keep" and moved:
        flip.fix_flip(res.get_atom(moved[0] + "FLIP"))
    elif outcome == "flip" and moved:
        flip.fix_flip(res.get_atom(moved[0]))
    flip.complete()
    msgs = []
    for bd in bonds:
        p, q = res.get_atom(bd[0]), res.get_atom(bd[1])
        if p is None or q is None:
            msgs.append(f"atom of bond {bd} is gone")
            continue
        d1 = utilities.distance(p.coords, q.coords)
        if abs(d1 - d0[bd]) > 1e-6:
            msgs.append(f"bond {bd[0]}-{bd[1]} {d0[bd]:.3f} -> {d1:.3f} A")
    if outcome != "flip":
        for a in res.atoms:
            if a.name in before and max(abs(x - y) for x, y in zip(a.coords, before[a.name])) > 1e-6:
                msgs.append(f"{a.name} moved although the residue was not flipped")
    return "; ".join(msgs[:4])


# ---------------------------------------------------------------------------
# S4b: the position helpers of hydrogens/optimize.py (they rotate substituents three times by 120 degrees
# to find free tetrahedral positions and must leave every input atom where it was)
# ---------------------------------------------------------------------------


def run_position_helpers(resname, oxygen, nsub):
    """real Optimize.get_positions_with_two_bonds / get_position_with_three_bonds on a real hydroxyl whose
    substituent count is nsub; Residue.rotate_tetrahedral is replaced by a tracker (which bond, which atoms,
    net angle): only hydrogens / lone pairs bonded to the oxygen may turn, about the anchor-oxygen bond, and
    the net turn of every atom is a multiple of 360 degrees.  A violation is replayed on the real code."""
    from pdb2pqr import residue as residue_mod
    from pdb2pqr.hydrogens import optimize

    out = {"table_rows": 1, "distinct": 1, "violations": [], "inconclusive": [], "samples": []}

    def build():
        bm, res = _setup(resname, "internal", False)
        o = res.get_atom(oxygen)
        k = 0
        while len(o.bonds) < nsub:
            k += 1
            res.create_atom(f"LP{k}", [o.x + 0.5 * k, o.y - 0.6, o.z + 0.4 * k])
            lp = res.get_atom(f"LP{k}")
            o.bonds.append(lp)
            lp.bonds.append(o)
        return bm, res, o

    bm, res, o = build()
    anchor = o.bonds[0]
    turns = {}
    bad = []

    def tracker(atom1, atom2, angle):
        moved = [a for a in atom2.bonds if a is not atom1]
        if atom1 is not anchor or atom2 is not o:
            bad.append(f"rotation about {atom1.name}->{atom2.name} instead of {anchor.name}->{o.name}")
        for a in moved:
            turns[a.name] = turns.get(a.name, 0) + angle
            if not a.is_hydrogen and not a.name.startswith("LP"):
                bad.append(f"heavy atom {a.name} is rotated")

    case = {"residue": resname, "oxygen": oxygen, "substituents": nsub}
    with patched((type(res), "rotate_tetrahedral", staticmethod(tracker)), (optimize.util, "distance", lambda a, b: 1.0)):
        if nsub == 2:
            optimize.Optimize.get_positions_with_two_bonds(o)
        else:
            optimize.Optimize.get_position_with_three_bonds(o)
    for n, t in turns.items():
        if t % 360:
            bad.append(f"{n} is left turned by {t % 360} degrees")
    out["samples"].append({**case, "turns": turns})
    if bad:
        # concrete replay through the real rotate_tetrahedral: did an input heavy atom move?
        from pdb2pqr import utilities

        bm2, res2, o2 = build()
        before = {a.name: tuple(a.coords) for a in res2.atoms}
        if nsub == 2:
            optimize.Optimize.get_positions_with_two_bonds(o2)
        else:
            optimize.Optimize.get_position_with_three_bonds(o2)
        moved = [(a.name, utilities.distance(a.coords, before[a.name])) for a in res2.atoms if not a.is_hydrogen and not a.name.startswith("LP") and utilities.distance(a.coords, before[a.name]) > 1e-6]
        if moved:
            out["violations"].append({"label": "position-helper-moves-input-atoms", "values": case, "note": "", "reproduced": True, "replay_detail": f"{'; '.join(bad[:3])}; concrete replay: input heavy atoms displaced {[(n, round(float(d), 3)) for n, d in moved]}"})
        else:
            out["inconclusive"].append(f"{case}: {bad[:2]} but the concrete replay leaves every heavy atom in place")
    return out


# ---------------------------------------------------------------------------
# S5: option gating on the real driver (flow harness)
# ---------------------------------------------------------------------------


def h_gating(eng, ff, pka, ligand):
    w = flow.World(eng, "r", False, {}, [])
    w.num_missing = eng.int("num_missing", 0, 100)
    opts = flow.symbolic_options(eng, fixed=dict(ff=ff, pka=pka, ligand=ligand), formatting=dict(whitespace=False, keep_chain=False, include_header=False, ffout=0, pdb_output=0, apbs_input=0))
    eng.assume(And(opts["ph"] >= 0, opts["ph"] <= 14))
    # remember the option symbols before transform_arguments rewrites args in place
    clean, assign_only, debump_, opt_ = opts["clean"], opts["assign_only"], opts["debump"], opts["opt"]
    exc = flow.run_driver(w, opts)
    stages = [n for n, _a, _k in w.log]
    movers = [s for s in stages if s in ("bm.repair_heavy", "debump.debump_biomolecule", "hr.initialize_full_optimization", "hr.set_optimizeable_hydrogens")]
    eng.note(f"movers={movers}")
    eng.check(Implies(Or(clean, assign_only), not movers), "clean/assign-only-move-nothing", note=f"with --clean or --assign-only the stages {movers} ran")
    deb = [s for s in stages if s == "debump.debump_biomolecule"]
    full = [s for s in stages if s in ("hr.initialize_full_optimization", "hr.set_optimizeable_hydrogens")]
    eng.check(Implies(Not(debump_), not deb), "nodebump-skips-debumping", note="debump_biomolecule ran although --nodebump was given")
    eng.check(Implies(Not(opt_), not full), "noopt-skips-full-optimisation", note="full hydrogen-bond optimisation (flips) ran although --noopt was given")
    eng.check(Implies(And(Not(Or(clean, assign_only)), debump_, exc is None), len(deb) == 2), "debump-runs-when-enabled", note=f"debumping ran {len(deb)} times with debump enabled")


# ---------------------------------------------------------------------------
# S6: census of coordinate writers
# ---------------------------------------------------------------------------

EXPECTED_WRITERS = {
    "pdb2pqr/debump.py:Debump.set_dihedral_angle",
    "pdb2pqr/residue.py:Residue.rotate_tetrahedral",
    "pdb2pqr/residue.py:Residue.create_atom",
    "pdb2pqr/aa.py:Amino.create_atom",
    "pdb2pqr/aa.py:WAT.create_atom",
    "pdb2pqr/aa.py:LIG.create_atom",
    "pdb2pqr/na.py:Nucleic.create_atom",
    "pdb2pqr/structures.py:Atom.__init__",
    "pdb2pqr/structures.py:Atom.from_pqr_line",
    "pdb2pqr/structures.py:Atom.from_qcd_line",
    "pdb2pqr/definitions.py:DefinitionAtom.__init__",
    "pdb2pqr/pdb.py:*",
    "pdb2pqr/ligand/mol2.py:*",
    "pdb2pqr/hydrogens/structures.py:*",
    "pdb2pqr/hydrogens/optimize.py:*",
    "pdb2pqr/psize.py:*",
    "pdb2pqr/topology.py:*",  # template parsing (TopologyAtom), not structure atoms
    "pdb2pqr/hydrogens/__init__.py:*",  # hydrogen optimisation package (outside, see DESIGN)
}


def census():
    found = {}
    for path in sorted(glob.glob(os.path.join(REPO, "pdb2pqr", "**", "*.py"), recursive=True)):
        rel = os.path.relpath(path, REPO)
        tree = ast.parse(open(path).read())

        class V(ast.NodeVisitor):
            def __init__(s):
                s.stack = []

            def visit_ClassDef(s, n):
                s.stack.append(n.name)
                s.generic_visit(n)
                s.stack.pop()

            def visit_FunctionDef(s, n):
                s.stack.append(n.name)
                s.generic_visit(n)
                s.stack.pop()

            def _targets(s, t):
                if isinstance(t, ast.Tuple):
                    for e in t.elts:
                        yield from s._targets(e)
                else:
                    yield t

            def visit_Assign(s, n):
                for t0 in n.targets:
                    for t in s._targets(t0):
                        if isinstance(t, ast.Attribute) and t.attr in ("x", "y", "z"):
                            found.setdefault(f"{rel}:{'.'.join(s.stack) or '<module>'}", []).append(n.lineno)
                s.generic_visit(n)

            def visit_AugAssign(s, n):
                t = n.target
                if isinstance(t, ast.Attribute) and t.attr in ("x", "y", "z"):
                    found.setdefault(f"{rel}:{'.'.join(s.stack) or '<module>'}", []).append(n.lineno)
                s.generic_visit(n)

        V().visit(tree)
    return found


def run_census():
    found = census()
    unexpected = []
    for site in found:
        f = site.split(":")[0]
        if site in EXPECTED_WRITERS or f"{f}:*" in EXPECTED_WRITERS:
            continue
        unexpected.append(site)
    out = {"table_rows": len(found), "distinct": len(found), "violations": [], "inconclusive": [], "samples": [{"writer": k, "lines": v[:4]} for k, v in list(found.items())[:4]]}
    if unexpected:
        out["inconclusive"].append(f"coordinate writers outside the encoded scope: {unexpected} - the claim's scope no longer matches the code (bookkeeping, not a verdict)")
    return out


def h_input_atoms_stay(eng, ff):
    """with --nodebump --noopt no input heavy atom moves at all - also when the input spells an atom by a supported
    alternate name (ILE CD for CD1, C-terminal OT1/OT2 ...), lists the residue's atoms in another order, or lacks atoms
    that are rebuilt (selectors): every input heavy atom is in the final model at its input coordinates"""
    from pdb2pqr import main

    alias = eng.choice("alternate_spelling", 3)  # 0 none, 1 ILE CD, 2 C-terminal O/OXT as OT1/OT2
    order = [None, "alphabetical", "reversed"][eng.choice("listing_order", 3)]
    missing = eng.choice("atom_missing_from_input", 3)  # 0 none, 1 ILE CG2, 2 LEU CD2
    ATOM_ORDER[0] = order
    try:
        lines = _peptide(["LEU", "ILE", "ALA"], 1)
    finally:
        ATOM_ORDER[0] = None
    ref = fixtures.pristine_definition().map["CALA"].map["OXT"]
    lines = [ln for ln in lines if not ln.startswith(("TER", "END"))]
    lines.append(fixtures.atom_line(90, "OXT", "ALA", "A", 3, ref.x - 7.6, ref.y, ref.z))
    out = []
    for ln in lines:
        name, num = ln[12:16].strip(), int(ln[22:26])
        if (missing == 1 and num == 2 and name == "CG2") or (missing == 2 and num == 1 and name == "CD2"):
            continue
        if num == 2 and name == "CD1":
            # off the template position (a rebuilt atom would land elsewhere), with or without the alternate spelling
            ln = ln[:30] + f"{float(ln[30:38]) + 0.25:8.3f}{float(ln[38:46]) - 0.2:8.3f}" + ln[46:]
            if alias == 1:
                ln = ln[:12] + " CD " + ln[16:]
        if num == 3 and name == "OXT":
            ln = ln[:46] + f"{float(ln[46:54]) + 0.2:8.3f}" + ln[54:]
        if alias == 2 and num == 3 and name in ("O", "OXT"):
            ln = ln[:12] + (" OT1" if name == "O" else " OT2") + ln[16:]
        out.append(ln)
    inputs = [(ln[12:16].strip(), int(ln[22:26]), (float(ln[30:38]), float(ln[38:46]), float(ln[46:54]))) for ln in out if not ln[12:16].strip().startswith("H")]
    try:
        bm, defn = fixtures.prepared(out + ["TER", "END"])
        args = fixtures.Args(ff=ff, pka_method=None, debump=False, opt=False)
        main.non_trivial(args, bm, None, defn, False)
    except (ValueError, KeyError) as e:
        eng.check(True, "loud-failure-tolerated", note=f"{type(e).__name__}: {str(e)[:80]}")
        return
    final = [(a.residue.res_seq, (round(a.x, 3), round(a.y, 3), round(a.z, 3))) for a in bm.atoms if not a.is_hydrogen]
    gone = [(n, num) for n, num, xyz in inputs if (num, tuple(round(v, 3) for v in xyz)) not in final]
    eng.check(not gone, "input-heavy-atoms-stay-put", note=f"--nodebump --noopt, alternate spelling {alias}, order {order}, missing {missing}: input heavy atoms {gone} are not at their input coordinates in the final model")


def obligations(tier, prop="C04"):
    obs = []
    residues = AMINO if tier == "thorough" else ["SER", "LEU", "ILE", "LYS", "PHE", "ASN", "HIS", "TYR", "MET", "THR"]
    for r in residues:
        for pos in POSITIONS:
            obs.append(Obligation(f"rotation-{r}-{pos}", run_classification, dict(resname=r, position=pos, neutral=False, prop=prop), kind="lemma", group="rotation"))
        if tier == "thorough" or r in ("SER", "LYS"):
            for pos in ("nterm", "cterm"):
                obs.append(Obligation(f"rotation-{r}-{pos}-neutral", run_classification, dict(resname=r, position=pos, neutral=True, prop=prop), kind="lemma", group="rotation"))
    # the rotating group must not depend on the order in which the input lists the residue's atoms
    for r in ("HIS", "LEU", "LYS", "TYR", "MET") if tier == "quick" else residues:
        for order in ("alphabetical", "reversed"):
            obs.append(Obligation(f"rotation-{r}-internal-{order}", run_classification, dict(resname=r, position="internal", neutral=False, prop=prop, order=order), kind="lemma", group="rotation"))
    # the Debump object is reused across passes (debump, add hydrogens, debump / flips): nothing it remembers from the
    # heavy-atom pass may decide which atoms turn later
    for r in ("LYS", "HIS", "SER") if tier == "quick" else residues:
        obs.append(Obligation(f"rotation-{r}-internal-reused-debump-object", run_classification, dict(resname=r, position="internal", neutral=False, prop=prop, warm=True), kind="lemma", group="rotation"))
    # two residues of one chain that differ in their insertion code only (antibody numbering: 52, 52A, 52B) are turned by
    # the same Debump object one after the other
    for r in ("LEU", "LYS") if tier == "quick" else [x for x in residues if x not in ("ALA", "GLY", "PRO")]:
        obs.append(Obligation(f"rotation-{r}-internal-after-insertion-code-twin", run_classification, dict(resname=r, position="internal", neutral=False, prop=prop, twin=True), kind="lemma", group="rotation"))
    if prop == "C04":
        from . import c15

        seqs = [("LEU", [1, 0, 1]), ("LYS", [2, 1, 2]), ("MET", [1, 0, 1]), ("PHE", [1, 0, 1])] if tier == "quick" else [(r, [k, j, k]) for r, nd in (("LEU", 2), ("LYS", 4), ("MET", 3), ("PHE", 2), ("ARG", 4), ("GLU", 3), ("GLN", 3), ("ILE", 2), ("TYR", 2), ("HIS", 2)) for k in range(1, nd) for j in range(k)]
        for r, ox in (("SER", "OG"), ("THR", "OG1"), ("TYR", "OH")):
            for nsub in (2, 3):
                obs.append(Obligation(f"position-helpers-{r}-{nsub}", run_position_helpers, dict(resname=r, oxygen=ox, nsub=nsub), kind="table", group="position-helpers"))
        for r in ("ASN", "GLN", "HIS"):
            for pos in ("internal", "cterm") if tier == "quick" else POSITIONS:  # a C-terminal amide shares the "O..." / "HO" name prefixes of the terminal carboxyl
                for outcome in ("undecided", "keep", "flip"):
                    obs.append(Obligation(f"flip-{r}-{pos}-{outcome}", run_flip, dict(resname=r, position=pos, outcome=outcome), kind="lemma", group="flip"))
        for r, steps in seqs:
            obs.append(Obligation(f"sequence-{r}-{'-'.join(map(str, steps))}", run_sequence, dict(resname=r, position="internal", steps=steps), kind="lemma", group="sequence"))

        obs.append(Obligation("lemma-rodrigues", c15.run_lemma, dict(body="rodrigues"), kind="lemma", group="lemma"))
        for ff, pka, lig in ((0, 0, 0), (1, 1, 0), (0, 1, 1)) if tier == "quick" else [(f, p, l) for f in (0, 1, 2) for p in (0, 1) for l in (0, 1)]:
            obs.append(Obligation(f"gating-ff{ff}-pka{pka}-lig{lig}", h_gating, dict(ff=ff, pka=pka, ligand=lig), group="gating", time_cap=1500, max_paths=200000))
        for ff in ("amber",) if tier == "quick" else ("amber", "parse", "charmm"):
            obs.append(Obligation(f"input-atoms-stay-{ff}", h_input_atoms_stay, dict(ff=ff), group="input-atoms", time_cap=1200))
        # the coordinates WRITTEN are the model's: the --whitespace re-spacer cuts the fixed-column line apart and may not lose a
        # sign or leading digit of a coordinate that fills its eight columns (C09's writer harness; round 7)
        from . import c09

        for focus in (["x", "y"], ["y", "z"]):
            obs.append(Obligation(f"written-coordinates-whitespace-{'+'.join(focus)}", c09.h_whitespace_equiv, dict(focus=focus, rtype="ATOM"), group="written-coordinates", time_cap=1500))
        obs.append(Obligation("census-coordinate-writers", run_census, {}, kind="table", group="census"))
    return obs


def encoded():
    from pdb2pqr import biomolecule as biomol
    from pdb2pqr import debump, main, quatfit, residue

    from pdb2pqr.hydrogens import structures as hs

    return [hs.Flip.__init__, hs.Flip.fix_flip, hs.Flip.finalize, hs.Flip.complete, debump.Debump.set_dihedral_angle, residue.Residue.get_moveable_names, biomol.Biomolecule.set_reference_distance, quatfit.qchichange, quatfit.rotmol, main.main_driver, main.non_trivial, main.transform_arguments]


META = dict(
    stubs=[
        "all coordinates of the residue are symbolic reals; the axis atom c = b + L*u with |u| = 1, L > 0; quatfit.normalize(L*u) -> u; math.cos/sin(angle) -> (C,S) on the unit circle",
        "pdb2pqr.utilities.np -> symx numpy subset (exact list arithmetic); utilities.dihedral -> constant (only stored, irrelevant to coordinates)",
        "Debump.cells -> recording stub (the remove/add bracket of every moved atom is checked)",
        "gating: the C12 recording environment (stage stubs)",
    ],
    bounds=[
        "residues: quick SER LEU ILE LYS PHE ASN HIS TYR MET THR, thorough all 20; positions N-terminal / internal / C-terminal in ALA-X-ALA (+ neutral termini for some); every reference dihedral of the (patched) topology; hydrogens present",
        "coordinates, rotation angle, axis direction and length: unbounded symbolic reals",
        "gating: all boolean options symbolic, ff x titration x ligand enumerated (quick 3 of 12)",
    ],
    outside=[
        "floating point: exact reals, the claim is 'no systematic displacement'; ulp-level drift is outside",
        "the optimisation search that decides which residues are flipped and which torsions are changed (the flip machinery itself - Flip.__init__/fix_flip/finalize/complete - IS executed symbolically)",
        "which residues debump_residue chooses to rotate and how often",
    ],
    assumptions=["bond graph = atom.bonds after update_internal_bonds (template bonds)"],
    technique="real set_dihedral_angle executed on z3 Real proxies, per-atom polynomial identities decided by z3 + finite bond-graph condition; symbolic options for gating; AST census",
)

MANIFEST = dict(
    text="For C04: the real Debump.set_dihedral_angle on real residues (every listed residue x chain position x reference dihedral) with ALL atom coordinates, the rotation angle and the axis symbolic: each atom is proved either fixed or moved by the single right-handed Rodrigues rotation about the axis bond (polynomial identities), Rodrigues is a proper rotation (lemma), and the finite bond-graph condition (no backbone/cap atom moves; every moved-fixed bond ends on the axis) then gives unchanged bond lengths/angles for all coordinates and angles; violations of the finite condition are replayed concretely; repeated with the residue's atom records listed alphabetically / reversed in the input, and with a Debump object that already served a pass before hydrogens were added. Option gating (--clean/--assign-only/--nodebump/--noopt) on the real driver over symbolic options; census of coordinate writers. Round 4: with debumping and optimisation off every input heavy atom is in the final model at its input coordinates, also under alternate atom spellings (ILE CD, OT1/OT2), other listing orders and rebuilt neighbours (selectors).",
    note="Trusted: z3, exact reals, cos/sin abstracted to the unit circle, template bond graph. Flips and the debump search are outside. Known findings: terminal cap atoms and a few branch atoms are ranked like side-chain atoms by set_reference_distance/get_moveable_names and rotate with the wrong bond (known_findings.json).",
    technique="polynomial identities over terms from the real code decided by z3 + finite graph condition; symbolic execution of the driver for gating",
    design="DESIGN.md section 3 C04",
)
