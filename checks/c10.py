"""C10 - mmCIF and PDB encodings of one structure give the same result.

Real code executed symbolically: cif.atom_site (single- and multi-model
branch) and cif.count_models on a stub pdbx container whose item values are
layout strings, followed by the real pdb.ATOM / pdb.HETATM / MODEL parsers.
Oracle: the fields the PDB parser would return for the same atom written in
PDB columns (chain = auth_asym_id).
"""
from __future__ import annotations

from symx import core, strs
from symx.core import And
from symx.run import Obligation
from symx.shims import builtin_shims, patched

PROP = "C10"

ALPHA_NAME = "ABCDEGHNOPSZ0123'*"
ALPHA_RES = "ABCDEGHILMNOPRSTUVWY0123"
ALPHA_ONE = "ABCXYZabz"


class _Atoms:
    """stand-in for the pdbx DataCategory `atom_site`: the item-name interface (get_value) and the positional one
    (attribute_list, get_attribute_index, row_list) over the same rows; `order` permutes the columns (mmCIF does not fix
    the order of the items of a loop)"""

    def __init__(self, rows, order=None):
        self.rows = rows
        self.row_count = len(rows)
        names = list(rows[0].keys()) if rows else []
        if order == "reversed":
            names = names[::-1]
        elif order == "rotated":
            names = names[5:] + names[:5]
        self.attribute_list = names
        self.row_list = [[r[n] for n in names] for r in rows]

    def get_value(self, item, i):
        return self.rows[i][item]

    def get_attribute_index(self, name):
        return self.attribute_list.index(name) if name in self.attribute_list else -1

    def has_attribute(self, name):
        return name in self.attribute_list

    def get_attribute_list(self):
        return list(self.attribute_list)


class _Block:
    def __init__(self, rows, order=None):
        self.atoms = _Atoms(rows, order)

    def get_object(self, name):
        assert name == "atom_site"
        return self.atoms


def _row(eng, i, group, marker, charge_marker, has_alt, name_len, comp_len, asym_len, same_chain, has_ins, focus, model):
    sym = eng.symbolic
    v = {}

    def name(tag, n, alpha, default):
        if tag in focus or True:
            if sym:
                return strs.sym_name(eng, f"{tag}{i}", n, alpha)
            return "".join(chr(eng.int(f"{tag}{i}_c{k}")) for k in range(n))
        return default

    v["group_PDB"] = group
    idv = eng.int(f"id{i}", 1, 999999) if "id" in focus else 1000 + i
    seq = eng.int(f"seq{i}", -999, 9999) if "seq" in focus else 17 + i
    xyz = {}
    decimals = {}
    for k in "xyz":
        if k + "int" in focus or k + "dec1" in focus:
            # other legal CIF number forms: a bare integer ("10", "-120", "0"), one decimal ("12.5")
            decimals[k] = 0 if k + "int" in focus else 1
            if decimals[k] == 0:
                xyz[k] = eng.int(f"{k}i{i}", -999, 9999)
            else:
                xyz[k] = eng.real(f"{k}{i}")
                eng.assume(And(xyz[k] > -9999, xyz[k] < 99999))
        elif k in focus:
            xyz[k] = eng.real(f"{k}{i}")
            eng.assume(And(xyz[k] > -9999, xyz[k] < 99999))
        else:
            xyz[k] = {"x": 1.5, "y": -22.25, "z": 333.125}[k] + i
    v["id"] = format(idv, "d")
    v["label_atom_id"] = name("name", name_len, ALPHA_NAME, "CA")
    v["label_alt_id"] = name("alt", 1, ALPHA_ONE, "A") if has_alt else marker
    v["label_comp_id"] = name("comp", comp_len, ALPHA_RES, "ALA")
    v["auth_comp_id"] = v["label_comp_id"]
    v["label_asym_id"] = name("asym", asym_len, ALPHA_ONE, "A")
    v["auth_asym_id"] = v["label_asym_id"] if same_chain else name("auth_asym", 1, ALPHA_ONE, "B")
    v["auth_seq_id"] = format(seq, "d")
    v["label_seq_id"] = format(i + 1, "d")  # the 1-based entity index: NOT the residue number of the PDB encoding
    v["pdbx_PDB_ins_code"] = name("ins", 1, ALPHA_ONE, "A") if has_ins else ("?" if marker == "." else marker)
    for k in "xyz":
        v[f"Cartn_{k}"] = format(xyz[k], ".3f") if k not in decimals else (format(xyz[k], "d") if decimals[k] == 0 else format(xyz[k], ".1f"))
    v["occupancy"] = "1.00"
    v["B_iso_or_equiv"] = "20.00"
    v["type_symbol"] = "C"
    v["pdbx_formal_charge"] = charge_marker
    v["pdbx_PDB_model_num"] = model
    want = dict(serial=idv, name=v["label_atom_id"], alt=v["label_alt_id"] if has_alt else "", res=v["label_comp_id"], chain=v["auth_asym_id"], seq=seq, ins=v["pdbx_PDB_ins_code"] if has_ins else "", x=xyz["x"], y=xyz["y"], z=xyz["z"], group=group, tol={k: {None: 0.0005, 0: 0.0, 1: 0.05}[decimals.get(k)] + 1e-9 for k in "xyz"})
    widths = {k: len(v[f"Cartn_{k}"]) for k in "xyz"}
    return v, want, widths, len(v["id"]), len(v["auth_seq_id"])


def _seq(a, b):
    if b is None:
        b = ""
    r = (a == b) if not isinstance(b, strs.SymStr) else (b == a)
    return r


def h_atom_site(eng, group, marker, charge_marker, has_alt, name_len, comp_len, asym_len, same_chain, has_ins, focus, models, earlier_file=None):
    from pdb2pqr import cif, pdb

    rows, wants = [], []
    maxw = 0
    idw = seqw = 0
    # group: one record type for all rows, or one per row ("ATOM,HETATM,ATOM": a hetero group between polymer rows)
    groups = group.split(",") if "," in group else [group] * len(models)
    for i, m in enumerate(models):
        v, want, widths, iw, sw = _row(eng, i, groups[i], marker, charge_marker, has_alt, name_len, comp_len, asym_len, same_chain, has_ins, focus if i == 0 else [], m)
        rows.append(v)
        wants.append(want)
        maxw = max(maxw, *widths.values())
        idw, seqw = max(idw, iw), max(seqw, sw)
    eng.derived.update(coord_width=maxw, id_width=idw, seq_width=seqw)
    sh = (builtin_shims(pdb, ("int", "float")) + builtin_shims(cif, ("int", "float")) + [(pdb, "str", strs.sym_str_t), (cif, "str", strs.sym_str_t)]) if eng.symbolic else []
    with patched(*sh):
        if earlier_file:
            # another mmCIF file was read earlier in this process; its atom_site loop lists the items in another order
            # (the earlier file has the usual wwPDB order, the checked one the permuted order: whatever other obligation ran
            # before in this worker process also used the usual order)
            try:
                cif.atom_site(_Block([dict(r) for r in rows]))
            except (ValueError, IndexError, TypeError):
                pass
        try:
            recs, errs = cif.atom_site(_Block(rows, order=earlier_file))
        except (ValueError, IndexError, TypeError) as e:
            eng.check(False, "parses", note=f"atom_site raised {type(e).__name__}: {str(e)[:120]}")
            return
        atoms = [r for r in recs if isinstance(r, (pdb.ATOM, pdb.HETATM))]
        distinct = []
        for m in models:
            if m not in distinct:
                distinct.append(m)
        if len(distinct) > 1:
            # block structure: MODEL j, its atoms in row order, ENDMDL - in file order of first appearance
            kinds = [type(r).__name__ for r in recs]
            want_kinds = []
            order = []
            for m in distinct:
                want_kinds.append("MODEL")
                for i, mm in enumerate(models):
                    if mm == m:
                        want_kinds.append(groups[i])
                        order.append(i)
                want_kinds.append("ENDMDL")
            eng.check(kinds == want_kinds, "model-blocks", note=f"record sequence {kinds}, expected {want_kinds}")
            got_models = [getattr(r, "serial", None) for r in recs if isinstance(r, pdb.MODEL)]
            eng.check([str(g) for g in got_models] == [str(int(m)) for m in distinct], "model-order", note=f"MODEL records {got_models}, file order of first appearance {distinct}: a PDB reader keeps only the first block")
        else:
            order = list(range(len(models)))
        eng.check(len(atoms) == len(models), "one-record-per-row", note=f"{len(atoms)} coordinate records for {len(models)} rows (errors: {errs})")
        if len(atoms) != len(models):
            return
        for a, i in zip(atoms, order):
            w = wants[i]
            eng.check(type(a).__name__ == w["group"], "record-type")
            ok = And(core.same(a.serial, w["serial"]), _seq(a.name, w["name"]), _seq(a.alt_loc, w["alt"]), _seq(a.res_name, w["res"]), _seq(a.chain_id, w["chain"]), core.same(a.res_seq, w["seq"]), _seq(a.ins_code, w["ins"]))
            eng.check(ok, "identity-fields", note=f"row {i}: PDB record built from the mmCIF row differs from the same atom in PDB columns: {a.original_text!r}")
            eng.check(And(*[core.close(getattr(a, k), w[k], w["tol"][k]) for k in "xyz"]), "coordinates", note=f"row {i}: coordinates differ: {a.original_text!r}")


def _case(**kw):
    base = dict(group="ATOM", marker=".", charge_marker="?", has_alt=False, name_len=2, comp_len=3, asym_len=1, same_chain=True, has_ins=False, focus=["id"], models=["1"])
    base.update(kw)
    return base


def h_dispatch(eng, nchars):
    """io.get_molecule picks the reader by the file-name suffix: a name whose suffix is ".cif" in any letter case is mmCIF
    (the pinned code lower-cases the suffix) and is read by the mmCIF reader, everything else by the PDB reader; is_cif
    says which.  The suffix is 1-4 characters, each a selector over 'cCiIfFpdbe.'; the readers
    and the file lookup are recording stubs."""
    from pdb2pqr import io

    from .c17 import _SymPath

    # the characters are selectors (concretised by forking), so that a table-driven dispatch (dict keyed by suffix) runs natively
    alpha = "cCiIfFpdbe."
    ext = "".join(alpha[eng.choice(f"ext{k}", len(alpha))] for k in range(nchars))
    name = "dir.v2/1abc." + ext
    called = []

    def reader(tag):
        def read(file_):
            called.append(tag)
            return ["record"], []

        return read

    class _CifReached(Exception):
        pass

    class _F:
        """stands for the opened input: the PDB reader pulls lines, the mmCIF reader hands it to pdbx.load"""

        def __init__(self):
            self.lines = ["ATOM      1  N   ALA A   1      11.104   6.134  -6.504  1.00  0.00           N  \n"]

        def readline(self):
            if "pdb" not in called:
                called.append("pdb")
            return self.lines.pop(0) if self.lines else ""

        def close(self):
            pass

    class _Cif:
        read_cif = staticmethod(reader("cif"))

    class _Pdb:
        read_pdb = staticmethod(reader("pdb"))

    class _Pdbx:
        @staticmethod
        def load(f):
            called.append("cif")
            raise _CifReached()

    from pdb2pqr import cif as cif_mod

    is_cif = None
    # two layers of stubs: the readers as io looks them up at call time, and - for a dispatch table bound at import time,
    # which holds the real functions - the first thing each real reader does with the file
    with patched((io, "get_pdb_file", lambda p: _F()), (io, "cif", _Cif), (io, "pdb", _Pdb), (cif_mod, "pdbx", _Pdbx)):
        try:
            _lst, is_cif = io.get_molecule(name)
        except _CifReached:
            pass
    # oracle: the suffix is what follows the last dot of the final component (if that dot is not its last character)
    is_cif_name = False
    tail = None
    for i in range(nchars - 1, -1, -1):
        if bool(ext[i] == "."):
            tail = ext[i + 1 :]
            break
    else:
        tail = ext
    if len(tail) == 0:
        tail = None  # name ends in a dot: pathlib reports no suffix
    if tail is not None and len(tail) == 3:
        is_cif_name = bool(And(core.Or(tail[0] == "c", tail[0] == "C"), core.Or(tail[1] == "i", tail[1] == "I"), core.Or(tail[2] == "f", tail[2] == "F")))
    eng.check(called == ["cif" if is_cif_name else "pdb"], "reader-follows-suffix", note=f"file name {str(name)!r} (suffix letters decided on this path: cif-in-any-case = {is_cif_name}) was handed to {called}")
    if is_cif is not None:
        eng.check(bool(is_cif) == is_cif_name, "is-cif-flag-follows-suffix",     note=f"is_cif = {is_cif} for a name whose suffix is{'' if is_cif_name else ' not'} .cif")


def obligations(tier):
    cases = []
    # inside the region where the pinned reader is expected to work
    for group in ("ATOM", "HETATM"):
        for focus in (["id"], ["seq"], ["x", "y"], ["z"], ["xint", "zdec1"], ["yint"]):
            for name_len in (1, 2, 3):
                for comp_len in (1, 2, 3):
                    if tier == "quick" and (name_len, comp_len) not in ((1, 3), (3, 1), (2, 2), (3, 3)):
                        continue
                    cases.append(_case(group=group, focus=focus, name_len=name_len, comp_len=comp_len))
        cases.append(_case(group=group, models=["1", "2"], focus=["x", "y"]))
        cases.append(_case(group=group, models=["1", "1", "2"], focus=["seq"]))
        if group == "ATOM":
            # record order is row order also when a HETATM row sits between ATOM rows (modified residue, cap, ligand inside a chain)
            cases.append(_case(group="ATOM,HETATM,ATOM", models=["1", "1", "1"], focus=["seq"]))
            cases.append(_case(group="HETATM,ATOM,HETATM", models=["1", "1", "1"], focus=["id"]))
            cases.append(_case(group="ATOM,HETATM,ATOM,ATOM", models=["1", "1", "1", "2"], focus=["seq"]))
        cases.append(_case(group=group, models=["9", "10"], focus=["id"]))
        cases.append(_case(group=group, models=["2", "1", "2"], focus=["z"]))
    # the other dimensions of the property (known to fail on the pinned tree: see known_findings.json)
    for group in ("ATOM", "HETATM"):
        for marker in ("", "?", None):
            cases.append(_case(group=group, marker=marker, charge_marker=None if marker is None else "", focus=["seq"]))
        cases.append(_case(group=group, has_alt=True, focus=["seq"]))
        cases.append(_case(group=group, name_len=4, focus=["seq"]))
        cases.append(_case(group=group, asym_len=2, focus=["seq"]))
        cases.append(_case(group=group, same_chain=False, focus=["seq"]))
        cases.append(_case(group=group, has_ins=True, focus=["seq"]))
        cases.append(_case(group=group, models=["1", "2"], marker="", focus=["id"]))
    cases.append(_case(group="ATOM", focus=["seq"], earlier_file="reversed"))
    cases.append(_case(group="HETATM", focus=["x", "y"], earlier_file="rotated"))
    obs = []
    for c in cases:
        tag = "-".join(f"{k}={'+'.join(map(str, v)) if isinstance(v, list) else v}" for k, v in c.items() if k not in ("charge_marker",))
        obs.append(Obligation(f"atom_site-{tag}", h_atom_site, c, group="atom_site", time_cap=1500))
    # the PQR written for an mmCIF input drops the TER bookkeeping records and nothing else: every atom line survives,
    # whatever its atom / residue name (a naming scheme may call a residue "TER"); C08's writer harness with is_cif=True
    from . import c08

    for ws in (False, True):
        obs.append(Obligation(f"cif-output-keeps-atom-lines-{'ws' if ws else 'fixed'}", c08.h_roundtrip, dict(focus=["name", "res_name"], rtype="ATOM", ws=ws, kc=False, name_len=3, res_len=3, is_cif=True), group="cif-output", time_cap=1500, max_paths=100000))
    for n in (3,) if tier == "quick" else (1, 2, 3, 4):
        obs.append(Obligation(f"dispatch-suffix-{n}-chars", h_dispatch, dict(nchars=n), group="dispatch", time_cap=1500, max_paths=200000))
    return obs


def encoded():
    from pdb2pqr import cif, pdb

    from pdb2pqr import io

    return [cif.atom_site, cif.count_models, pdb.ATOM.__init__, pdb.HETATM.__init__, pdb.MODEL.__init__, io.get_molecule]


META = dict(
    stubs=[
        "the pdbx data block -> stub container whose atom_site.get_value returns layout strings (symbolic numbers rendered as the mmCIF text, symbolic names) and the missing-value marker of the case ('.', '?', '' or None: the conventions of different mmcif-pdbx versions)",
        "pdb2pqr.pdb.int/float/str and pdb2pqr.cif.str -> symx shims",
    ],
    bounds=[
        "one to three atom_site rows; first row symbolic in one group of fields: id 1..999999, auth_seq_id -999..9999, x/y or z in (-9999, 99999) with three decimals; atom name 1-4, residue name 1-3, asym id 1-2 symbolic characters; alt id / insertion code absent or one symbolic character",
        "model numbers concrete: ['1'], ['1','2'], ['1','1','2'], ['9','10'], ['2','1','2']",
    ],
    outside=["the pdbx tokenizer itself (third party)", "header categories, CONECT, the CIF-flavoured output trailer", "the rest of the pipeline after records are built (identical code for both formats once the record lists agree)"],
    assumptions=["the same atom in a PDB file carries chain = auth_asym_id, residue number = auth_seq_id, insertion code = pdbx_PDB_ins_code, alternate location = label_alt_id"],
    technique="symbolic execution of the real cif.atom_site + PDB parsers on layout strings (symx) + SMT verdict per path; known-finding regions per cause",
)

MANIFEST = dict(
    text="For C10: the real cif.atom_site (both branches) and count_models on a stub container whose values are layout strings (symbolic serials, residue numbers, coordinates, names) followed by the real ATOM/HETATM/MODEL parsers, against the fields a PDB file would carry for the same atom; covers both missing-value conventions of the mmCIF dependency, alternate locations, insertion codes, 4-character names, 2-character asym ids, label/auth chain and residue-number differences, coordinates written with three decimals, one decimal or as bare integers, and multi-model files. The pinned reader fails for most of these (known findings, one region per cause); the check proves the remaining region correct and reports anything new. Round 4: HETATM rows between ATOM rows (record order is row order).",
    note="Trusted: z3, symx layout strings, the stub container's contract. Only the record-assembly kernel is decided; the equality of the downstream pipeline for equal record lists is argued, not checked. With the installed mmcif-pdbx (missing values come back as '' / None) every record falls in known-finding region C10-F1.",
    technique="symbolic execution of real code on layout strings (symx) + SMT verdict per path",
    design="DESIGN.md section 3 C10",
)
