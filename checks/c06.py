"""C06 - titration follows pKa versus pH and stays within force-field support.

Real code executed symbolically: main.non_trivial (whole function, real force
field, real hydrogen optimisation on a concrete tripeptide) with pH and every
pKa symbolic reals; Biomolecule.apply_pka_values; the key construction that
connects PROPKA's rows to residues.  PROPKA's pKa computation is the only stub:
``main.run_propka`` is replaced by a function that reads the residues from the
same PDB text the real one hands to PROPKA and returns arbitrary pKa values.
"""
from __future__ import annotations

import logging

from symx import core
from symx.core import And, Implies, Not, Or
from symx.run import Obligation
from symx.shims import patched

from . import fixtures

PROP = "C06"

FFS = ["amber", "charmm", "parse", "peoepb", "swanson", "tyl06"]
# group -> (patch that produces the non-default state, is the default state the protonated one?)
GROUPS = {
    "ASP": ("ASH", False),
    "GLU": ("GLH", False),
    "HIS": ("HIP", False),
    "CYS": ("CYM", True),
    "TYR": ("TYM", True),
    "LYS": ("LYN", True),
    "ARG": ("AR0", True),
}
TERMINI = {"N+": ("NEUTRAL-NTERM", True), "C-": ("NEUTRAL-CTERM", False)}
POS = {"nterm": 0, "internal": 1, "cterm": 2}


BACKBONE = {"N", "CA", "C", "O", "OXT", "H", "H2", "H3", "HA", "HA2", "HA3", "HO", "HXT", "H1"}
TERMINAL = {"H", "H2", "H3", "OXT", "HO", "HXT", "H1", "O"}


def _strip(res):
    """force-field residue name without the terminal prefix, and the prefix"""
    n = res.ffname
    for pre, flag in (("NEUTRAL-N", res.is_n_term), ("NEUTRAL-C", res.is_c_term), ("N", res.is_n_term), ("C", res.is_c_term)):
        if flag and n.startswith(pre) and len(n) > len(pre) + 1:
            return n[len(pre):], pre
    return n, ""


_HIS_NEUTRAL = {"HID", "HIE", "HSD", "HSE", "HIS"}


def _sc_state(res):
    """side-chain state by force-field residue name (naming-scheme independent;
    the two neutral histidine tautomers are one state)"""
    n = _strip(res)[0]
    return "HIS(neutral)" if n in _HIS_NEUTRAL else n


def _term_state(res, which):
    return "NEUTRAL" if ("NEUTRAL-NTERM" if which == "N+" else "NEUTRAL-CTERM") in res.patches else "CHARGED"


class _Capture(logging.Handler):
    def __init__(self):
        super().__init__(level=logging.WARNING)
        self.records = []

    def emit(self, record):
        try:
            self.records.append((record.name, record.funcName, str(record.msg)))
        except Exception:  # noqa: BLE001
            self.records.append((record.name, record.funcName, "<unprintable>"))


def _seq(group, position):
    seq = ["ALA", "ALA", "ALA"]
    seq[POS[position]] = group
    return seq


NEUTRAL = [False]  # --neutraln --neutralc (PARSE only) for the duration of one obligation
OPT = [True]  # hydrogen-bond optimisation on (default) / --noopt, per path of the titration harness


def _args(ff, ffout, ph, keep_chain=True):
    a = fixtures.Args(ff=ff, ffout=ffout, ph=ph, pka_method="propka", debump=True, opt=OPT[0], keep_chain=keep_chain, neutraln=NEUTRAL[0], neutralc=NEUTRAL[0])
    return a


def _propka_stub(pkas):
    """PROPKA contract: one row per titratable group found in the PDB text it is
    given (residue identity read from the PDB columns), pKa arbitrary."""
    from pdb2pqr import io

    def run_propka(args, biomolecule):
        lines = io.print_biomolecule_atoms(atomlist=biomolecule.atoms, chainflag=args.keep_chain, pdbfile=True)
        residues = []
        for ln in lines:
            if not ln.startswith(("ATOM", "HETATM")):
                continue
            key = (ln[21], int(ln[22:26]), ln[17:20].strip(), ln[26])
            if key not in residues:
                residues.append(key)
        rows = []

        def row(chain, num, resname, rtype, pka, icode=" "):
            # group_type as propka/group.py sets it: 'COO' for ASP, GLU AND for the C-terminus (CtermGroup: "COO-C- parameter
            # unification"), 'N+' for the N-terminus, the residue name for HIS/CYS/TYR/LYS/ARG; the label keeps "C-"
            gtype = {"ASP": "COO", "GLU": "COO", "C-": "COO"}.get(rtype, rtype)
            rows.append({"res_num": num, "ins_code": icode, "res_name": resname, "chain_id": chain, "group_label": f"{rtype:<3s}{num:>4d}{chain:>2s}", "group_type": gtype, "pKa": pka, "model_pKa": 0.0, "buried": 0.0, "coupled_group": None})

        chains = []
        for ch, _n, _r, _i in residues:
            if ch not in chains:
                chains.append(ch)
        ngroup = 0
        for ch in chains:
            rs = [r for r in residues if r[0] == ch]
            row(ch, rs[0][1], rs[0][2], "N+", pkas["N+"], rs[0][3])
            for c, n, r, ic in rs:
                if r in GROUPS:
                    # each titratable residue has its own pKa when the harness provides several
                    pk = pkas.get(f"group{ngroup}", pkas["group"])
                    ngroup += 1
                    row(c, n, r, r, pk, ic)
            row(ch, rs[-1][1], rs[-1][2], "C-", pkas["C-"], rs[-1][3])
        return rows, ""

    return run_propka


_REF_CACHE = {}


def _reference(ff, seq, idx, patch, ffout=None):
    """Concrete run with the state forced by applying *patch* to residue idx
    (None = default state): is the state parameterisable, and what does the
    residue look like?  Uses the real pipeline, no pKa logic."""
    key = (ff, tuple(seq), idx, patch, ffout, NEUTRAL[0], OPT[0])
    if key in _REF_CACHE:
        return _REF_CACHE[key]
    from pdb2pqr import main

    bm, defn = fixtures.prepared(fixtures.peptide_lines(seq), neutraln=NEUTRAL[0], neutralc=NEUTRAL[0])
    res = bm.residues[idx]
    out = {"supported": False, "sc": None, "tn": None, "tc": None, "charge": None, "missing": None, "natoms": None}
    try:
        if patch:
            bm.apply_patch(patch, res)
        args = _args(ff, ffout, 7.0)
        args.pka_method = None
        r = main.non_trivial(args, bm, None, defn, False)
        miss = [a for a in r["missed_residues"] if a.residue is res]
        out.update(supported=not miss, sc=_sc_state(res), tn=_term_state(res, "N+"), tc=_term_state(res, "C-"), charge=res.charge, missing=len(miss), natoms=len(res.atoms))
    except (ValueError, KeyError) as e:
        out["error"] = f"{type(e).__name__}: {e}"
    _REF_CACHE[key] = out
    return out


def h_titration(eng, ff, ffout, group, position, keep_chain=True, start=1, neutral=False):
    NEUTRAL[0] = bool(neutral)
    # --noopt is a model option like any other: titration states follow pKa vs pH with and without the optimisation pass
    OPT[0] = bool(eng.flag("opt")) if group in ("ASP", "GLU", "HIS") and position == "internal" else True
    try:
        return _h_titration(eng, ff, ffout, group, position, keep_chain, start)
    finally:
        NEUTRAL[0] = False
        OPT[0] = True


def _h_titration(eng, ff, ffout, group, position, keep_chain=True, start=1):
    from pdb2pqr import biomolecule as biomol
    from pdb2pqr import main

    seq = _seq(group, position)
    idx = POS[position]
    ph = eng.real("ph", 0, 14)
    pkas = {"group": eng.real("pka"), "N+": eng.real("pka_n"), "C-": eng.real("pka_c")}
    bm, defn = fixtures.prepared(fixtures.peptide_lines(seq, start=start), neutraln=NEUTRAL[0], neutralc=NEUTRAL[0])
    cap = _Capture()
    lg = logging.getLogger("pdb2pqr")
    old_level = lg.level
    lg.setLevel(logging.WARNING)
    # the process may already have logged many of the repetitive warnings pdb2pqr rate-limits (a structure with a
    # dozen unknown hetero groups, or earlier structures handled by the same interpreter): the titration warnings
    # must still get through
    if eng.flag("rate_limited_warnings_logged_before"):
        from pdb2pqr.config import FILTER_WARNINGS, FILTER_WARNINGS_LIMIT

        for prefix in FILTER_WARNINGS:
            for k in range(FILTER_WARNINGS_LIMIT + 2):
                logging.getLogger("pdb2pqr.biomolecule").warning(f"{prefix} XX{k}")
    lg.addHandler(cap)
    try:
        with patched((main, "run_propka", _propka_stub(pkas))):
            try:
                result = main.non_trivial(_args(ff, ffout, ph, keep_chain), bm, None, defn, False)
            except ValueError as e:
                eng.check(False, "run-succeeds", note=f"non_trivial raised ValueError: {str(e)[:200]}")
                return
    finally:
        lg.removeHandler(cap)
        lg.setLevel(old_level)
    missed = result["missed_residues"]
    warnings = [m for (_n, fn, m) in cap.records if fn == "apply_pka_values"]

    def judge(label, res, patch, default_protonated, pka, keytexts):
        ref_default = _reference(ff, seq, bm.residues.index(res), None, ffout)
        ref_other = _reference(ff, seq, bm.residues.index(res), patch, ffout)
        prot = ref_default if default_protonated else ref_other
        deprot = ref_other if default_protonated else ref_default
        below = ph < pka
        view = {"N+": "tn", "C-": "tc"}.get(label, "sc")
        state = _term_state(res, label) if view != "sc" else _sc_state(res)
        st_prot, st_deprot, st_def = prot[view], deprot[view], ref_default[view]
        want_if_below = st_prot if prot["supported"] else st_def
        want_if_above = st_deprot if deprot["supported"] else st_def
        eng.note(f"{label}: state={state} prot={st_prot}/{prot['supported']} deprot={st_deprot}/{deprot['supported']}")
        eng.check(
            And(Implies(below, state == want_if_below), Implies(Not(below), state == want_if_above)),
            f"{label}-state-follows-pka",
            note=f"ff={ff} ffout={ffout} {label} at {position}: final state {state}; expected {want_if_below} when pH<pKa, {want_if_above} when pH>=pKa (protonated state supported: {prot['supported']}, deprotonated: {deprot['supported']})",
        )
        # unsupported target state -> a warning naming the group
        warned = any(any(k in w for k in keytexts) for w in warnings)
        need_warn = Or(And(below, not prot["supported"], st_prot != st_def), And(Not(below), not deprot["supported"], st_deprot != st_def))
        eng.check(Implies(need_warn, warned), f"{label}-warning-when-unsupported", note=f"ff={ff} {label} at {position}: target state not parameterisable but no warning naming the group was issued (warnings: {warnings[:3]})")
        if state != st_def and ref_other["natoms"] is not None and ref_default["natoms"] is not None:
            expected_atoms[id(res)] = expected_atoms.get(id(res), 0) + ref_other["natoms"] - ref_default["natoms"]
        base_atoms[id(res)] = (res, ref_default["natoms"])
        # never dropped because of titration
        lost = len([a for a in missed if a.residue is res])
        eng.check(lost <= (ref_default["missing"] or 0), f"{label}-not-dropped", note=f"ff={ff} {label} at {position}: {lost} atoms of the residue unassigned after titration (default state: {ref_default['missing']}); final state {state}")

    expected_atoms, base_atoms = {}, {}
    target = bm.residues[idx]
    patch, dprot = GROUPS[group]
    judge(group, target, patch, dprot, pkas["group"], [f"{group} {target.res_seq} {target.chain_id}"])
    n_res, c_res = bm.residues[0], bm.residues[-1]
    if NEUTRAL[0]:
        n_res = c_res = None  # the termini are fixed by the options: only the side-chain group is judged
    if n_res is not None:
        judge("N+", n_res, "NEUTRAL-NTERM", True, pkas["N+"], ["N-terminal", f"N+  {n_res.res_seq:>3} {n_res.chain_id}"])
        judge("C-", c_res, "NEUTRAL-CTERM", False, pkas["C-"], ["C-terminal", f"C-  {c_res.res_seq:>3} {c_res.chain_id}"])
    # the atom count of each judged residue is the default count plus the difference every non-default group state makes
    for rid, (res, n0) in base_atoms.items():
        if n0 is None:
            continue
        want = n0 + expected_atoms.get(rid, 0)
        eng.check(len(res.atoms) == want, "atom-count-matches-state", note=f"ff={ff} ffout={ffout} {res}: {len(res.atoms)} atoms, the reference runs for its state ({res.ffname}) have {want}")


def h_monotone(eng, ff, group, position):
    """total charge never increases as pH rises (same pKa assignment)"""
    from pdb2pqr import main

    seq = _seq(group, position)
    ph1 = eng.real("ph1", 0, 14)
    ph2 = eng.real("ph2", 0, 14)
    eng.assume(ph1 < ph2)
    pkas = {"group": eng.real("pka"), "N+": eng.real("pka_n"), "C-": eng.real("pka_c")}
    tot = []
    for ph in (ph1, ph2):
        bm, defn = fixtures.prepared(fixtures.peptide_lines(seq))
        with patched((main, "run_propka", _propka_stub(pkas))):
            try:
                main.non_trivial(_args(ff, None, ph), bm, None, defn, False)
            except ValueError as e:
                eng.check(False, "run-succeeds", note=f"non_trivial raised ValueError: {str(e)[:200]}")
                return
        tot.append(sum(r.charge for r in bm.residues))
    eng.note(f"charges {tot}")
    eng.check(tot[0] >= tot[1] - 1e-6, "charge-monotone", note=f"ff={ff} {group} at {position}: total charge {tot[0]} at the lower pH, {tot[1]} at the higher pH")


def h_split_chain(eng, ff):
    """Two peptides under one chain id, the first closed by OXT (hidden chain
    end): PROPKA reads the atoms' chain ids, apply_pka_values the residues'."""
    from pdb2pqr import main

    first = fixtures.peptide_lines(["GLY", "ASP", "ALA"], "A", 1, ter=False)
    ref = fixtures.pristine_definition().map["CALA"].map["OXT"]
    first.append(fixtures.atom_line(90, "OXT", "ALA", "A", 3, ref.x - 7.6, ref.y, ref.z))
    second = fixtures.peptide_lines(["GLY", "LYS", "GLY"], "A", 11, origin=(0.0, 20.0, 0.0), serial0=100)
    ph = eng.real("ph", 0, 14)
    pkas = {"group": eng.real("pka"), "N+": eng.real("pka_n"), "C-": eng.real("pka_c")}
    bm, defn = fixtures.prepared(first + second)
    with patched((main, "run_propka", _propka_stub(pkas))):
        try:
            main.non_trivial(_args(ff, None, ph), bm, None, defn, False)
        except ValueError as e:
            eng.check(False, "run-succeeds", note=f"non_trivial raised ValueError: {str(e)[:200]}")
            return
    below = ph < pkas["group"]
    asp = [r for r in bm.residues if r.name == "ASP"][0]
    lys = [r for r in bm.residues if r.name == "LYS"][0]
    asp_prot = asp.has_atom("HD2")
    lys_prot = lys.has_atom("HZ1") and lys.has_atom("HZ2") and lys.has_atom("HZ3")
    eng.note(f"chains={[c.chain_id for c in bm.chains]} asp_prot={asp_prot} lys_prot={lys_prot}")
    eng.check(And(Implies(below, asp_prot), Implies(Not(below), not asp_prot)), "split-chain-first-peptide", note=f"ASP in the OXT-closed first peptide: protonated={asp_prot}")
    eng.check(And(Implies(below, lys_prot), Implies(Not(below), not lys_prot)), "split-chain-second-peptide", note=f"LYS in the split-off second peptide (chains {[c.chain_id for c in bm.chains]}): protonated={lys_prot}; its pKa row was not applied")


def h_two_positions(eng, ff, group, terminal):
    """the same titratable residue type twice in one run - internal in chain A, N- or C-terminal in chain B - each with its
    own pKa: each ends in the state and with the atom set of the single-residue reference run for ITS chain position
    (round 6: a per-run cache of patched topologies keyed by residue name and patch gave the terminal residue the
    internal topology: no H2/H3, a wrong charge)"""
    from pdb2pqr import main

    seq_a = ["ALA", group, "ALA"]
    seq_b = [group, "ALA", "ALA"] if terminal == "nterm" else ["ALA", "ALA", group]
    lines = fixtures.peptide_lines(seq_a, "A", 1) + fixtures.peptide_lines(seq_b, "B", 11, origin=(0.0, 25.0, 0.0), serial0=300)
    ph = eng.real("ph", 0, 14)
    pkas = {"group": eng.real("pka"), "group0": eng.real("pka_internal"), "group1": eng.real("pka_terminal"), "N+": eng.real("pka_n"), "C-": eng.real("pka_c")}
    bm, defn = fixtures.prepared(lines)
    with patched((main, "run_propka", _propka_stub(pkas))):
        try:
            result = main.non_trivial(_args(ff, None, ph), bm, None, defn, False)
        except ValueError as e:
            eng.check(False, "run-succeeds", note=f"non_trivial raised ValueError: {str(e)[:200]}")
            return
    patch, dprot = GROUPS[group]
    targets = [r for r in bm.residues if r.res_seq in (2, 11 if terminal == "nterm" else 13)]
    missed = result["missed_residues"]
    for res, seq, idx, pka, where in ((targets[0], seq_a, 1, pkas["group0"], "internal"), (targets[1], seq_b, 0 if terminal == "nterm" else 2, pkas["group1"], terminal)):
        ref_default = _reference(ff, seq, idx, None)
        ref_other = _reference(ff, seq, idx, patch)
        prot = ref_default if dprot else ref_other
        deprot = ref_other if dprot else ref_default
        below = ph < pka
        state = _sc_state(res)
        want_b = prot if prot["supported"] else ref_default
        want_a = deprot if deprot["supported"] else ref_default
        eng.check(And(Implies(below, state == want_b["sc"]), Implies(Not(below), state == want_a["sc"])), "each-follows-its-own-pka", note=f"ff={ff} {group} {where} (one of two in the run): state {state}, expected {want_b['sc']} below its pKa / {want_a['sc']} above")
        natoms = len(res.atoms)
        eng.check(And(Implies(below, natoms == want_b["natoms"]), Implies(Not(below), natoms == want_a["natoms"])), "each-has-the-atoms-of-its-chain-position", note=f"ff={ff} {group} {where} (one of two in the run): {natoms} atoms ({sorted(a.name for a in res.atoms if a.is_hydrogen)}), the single-residue reference run for this chain position has {want_b['natoms']} below / {want_a['natoms']} above the pKa")
        lost = len([a for a in missed if a.residue is res])
        eng.check(lost <= (ref_default["missing"] or 0), "each-not-dropped", note=f"ff={ff} {group} {where}: {lost} atoms unassigned after titration")


def h_same_number(eng, ff, variant):
    """two titratable residues that share residue number (insertion code) or differ only in chain:
    each must follow ITS OWN pKa"""
    from pdb2pqr import main

    if variant == "insertion-code":
        lines = fixtures.peptide_lines(["ALA", "ASP", "ASP", "ALA"], "A", 19, ter=False)
        # renumber: 19, 20, 20A, 21
        out = []
        for ln in lines:
            num = int(ln[22:26])
            if num == 21:
                ln = ln[:22] + f"{20:>4d}A" + ln[27:]
            elif num == 22:
                ln = ln[:22] + f"{21:>4d} " + ln[27:]
            out.append(ln)
        lines = out + ["TER"]
    else:  # same number in two chains
        lines = fixtures.peptide_lines(["ALA", "ASP", "ALA"], "A", 19) + fixtures.peptide_lines(["ALA", "ASP", "ALA"], "B", 19, origin=(0.0, 20.0, 0.0), serial0=200)
    ph = eng.real("ph", 0, 14)
    pkas = {"group": eng.real("pka"), "group0": eng.real("pka_first"), "group1": eng.real("pka_second"), "N+": eng.real("pka_n"), "C-": eng.real("pka_c")}
    bm, defn = fixtures.prepared(lines)
    with patched((main, "run_propka", _propka_stub(pkas))):
        try:
            main.non_trivial(_args(ff, None, ph), bm, None, defn, False)
        except ValueError as e:
            eng.check(False, "run-succeeds", note=f"non_trivial raised ValueError: {str(e)[:200]}")
            return
    asps = [r for r in bm.residues if r.name == "ASP"]
    eng.note(f"{[(str(r), r.has_atom('HD2')) for r in asps]}")
    for r, pk, tag in zip(asps, (pkas["group0"], pkas["group1"]), ("first", "second")):
        prot = r.has_atom("HD2")
        below = ph < pk
        eng.check(And(Implies(below, prot), Implies(Not(below), not prot)), f"{tag}-follows-its-own-pka", note=f"{variant}: {r} protonated={prot}: it does not follow the pKa PROPKA reported for it")


def h_ph_reaches_titration(eng, ff):
    """the real main_driver (transform_arguments, non_trivial) in the recording environment of flow.py with --with-ph a
    symbolic real: the pH compared with the pKa values (second argument of apply_pka_values) IS the requested pH - not a
    rounded, clamped or defaulted one (round 6: a pH rounded to two decimals in option handling flips groups whose pKa
    lies within 0.005 of it)"""
    from . import flow

    w = flow.World(eng, "r", False, {}, [])
    opts = flow.symbolic_options(eng, fixed=dict(ff=ff, pka=1, ligand=0), formatting=dict(whitespace=False, keep_chain=False, include_header=False, ffout=0, pdb_output=0, apbs_input=0))
    ph = opts["ph"]
    eng.assume(And(ph >= 0, ph <= 14))
    exc = flow.run_driver(w, opts)
    calls = [(a, k) for n, a, k in w.raw if n == "bm.apply_pka_values"]
    propka_ran = any(n == "run_propka" for n, _a, _k in w.raw)
    if not calls and (exc is not None or not propka_ran):
        eng.note(f"no titration in this run ({type(exc).__name__ if exc is not None else 'options switch it off'})")
        eng.check(True, "no-titration-in-this-run")
        return
    eng.check(len(calls) == 1, "titration-applied-once", note=f"apply_pka_values called {len(calls)} times in a run that called PROPKA")
    for a, k in calls:
        got = a[1] if len(a) > 1 else k.get("ph")
        eng.check(core.same(got, ph), "titration-uses-the-requested-ph", note="the pH handed to apply_pka_values is not the value given with --with-ph")


def obligations(tier):
    obs = []
    for ff in FFS:
        for group in GROUPS:
            for position in POS:
                ffouts = [None]
                if tier == "thorough":
                    ffouts = [None] + [f for f in ("parse", "charmm", "amber") if f != ff][:2]
                elif group in ("LYS", "TYR") and position == "internal":
                    ffouts = [None, "charmm" if ff != "charmm" else "parse"]
                for ffout in ffouts:
                    obs.append(Obligation(f"titration-{ff}-{group}-{position}-ffout={ffout}", h_titration, dict(ff=ff, ffout=ffout, group=group, position=position), group="titration", time_cap=900))
    # PARSE with --neutraln --neutralc: a titratable residue at a (neutral) chain end still follows its side-chain pKa
    for group in GROUPS:
        for position in ("nterm", "cterm"):
            obs.append(Obligation(f"titration-parse-{group}-{position}-neutral-termini", h_titration, dict(ff="parse", ffout=None, group=group, position=position, neutral=True), group="titration", time_cap=900))
    for ff in ("parse", "amber") if tier == "quick" else FFS:
        for group in ("ASP", "LYS") if tier == "quick" else GROUPS:
            for position in ("internal",) if tier == "quick" else POS:
                obs.append(Obligation(f"monotone-{ff}-{group}-{position}", h_monotone, dict(ff=ff, group=group, position=position), group="monotone", time_cap=900))
    for ff in ("parse",) if tier == "quick" else ("parse", "amber", "swanson"):
        obs.append(Obligation(f"split-chain-{ff}", h_split_chain, dict(ff=ff), group="split-chain", time_cap=900))
        for start in (998, 9997, -101, -999):
            for group in ("GLU", "LYS"):
                obs.append(Obligation(f"numbering-{ff}-{group}-start{start}", h_titration, dict(ff=ff, ffout=None, group=group, position="internal", start=start), group="titration", time_cap=900))
        for variant in ("insertion-code", "two-chains"):
            obs.append(Obligation(f"same-number-{variant}-{ff}", h_same_number, dict(ff=ff, variant=variant), group="same-number", time_cap=900))
    for ff in ("amber", "parse") if tier == "quick" else FFS:
        for group in ("HIS", "ASP") if tier == "quick" else ("HIS", "ASP", "GLU", "LYS", "TYR", "CYS"):
            for terminal in ("nterm", "cterm"):
                obs.append(Obligation(f"two-positions-{ff}-{group}-{terminal}", h_two_positions, dict(ff=ff, group=group, terminal=terminal), group="two-positions", time_cap=900))
    for ff in (0, 1):
        obs.append(Obligation(f"ph-reaches-titration-ff{ff}", h_ph_reaches_titration, dict(ff=ff), group="ph-flow", time_cap=900, max_paths=100000))
    return obs


def encoded():
    from pdb2pqr import biomolecule as biomol
    from pdb2pqr import main

    B = biomol.Biomolecule
    return [main.non_trivial, B.apply_pka_values, B.apply_patch, B.add_hydrogens, B.set_states, B.apply_force_field, B.set_termini]


META = dict(
    stubs=[
        "pdb2pqr.main.run_propka -> reads residue identities from the PDB text the real function would hand to PROPKA (real io.print_biomolecule_atoms, PDB columns) and returns one row per titratable group / terminus with PROPKA's label format and an arbitrary (symbolic) pKa",
        "logging: WARNING records of pdb2pqr loggers captured by a handler",
        "oracle 'the force field can parameterise that state': a concrete reference run of the real pipeline with the state forced by apply_patch (no pKa logic involved)",
    ],
    bounds=[
        "pH in [0,14], pKa of the side-chain group, of the N-terminus and of the C-terminus arbitrary reals (all symbolic simultaneously)",
        "structures: ALA-ALA-ALA with the titratable residue substituted at the N-terminal, internal or C-terminal position (template geometry), chain A, residues 1-3; hidden-chain-end variant: two peptides under one chain id",
        "enumerated: 7 side-chain groups x 3 positions x 6 force fields; --ffout None and one (quick: some cases) or two (thorough) other naming schemes; default --keep-chain",
    ],
    outside=[
        "PROPKA's own pKa values and its choice of which groups it reports (coupled groups, ligands)",
        "residue numbers other than 1-3, 998-1000, 9997-9999, -101..-99, -999..-997 and chain identifiers other than A/B in the lookup keys (numbers are enumerated, not symbolic)",
        "interactions between several titratable side chains in one structure",
    ],
    assumptions=["PROPKA reports one row per ASP/GLU/HIS/CYS/TYR/LYS/ARG residue and one N+/C- row per chain, labelled '{type:<3s}{num:>4d}{chain:>2s}' (propka/group.py)"],
    technique="symbolic execution of the real non_trivial/apply_pka_values on z3 reals (symx) + SMT verdict per path; support oracle computed from the real force-field files",
)

MANIFEST = dict(
    text="For C06: the real main.non_trivial (real force field files, real hydrogen placement/optimisation) on tripeptides with pH and the pKa of the side-chain group, the N-terminus and the C-terminus all symbolic reals, for every group x chain position x force field (and --ffout variants): final state = protonated iff pH < pKa when the real force field can parameterise that state (oracle: a reference run with the state forced), default state + warning otherwise, no residue dropped, total charge monotone in pH, and PROPKA's rows reach the residues they belong to (incl. a hidden chain end); warnings are observed at a logging handler behind pdb2pqr's own rate-limit filter, with and without the filter's limits already exceeded earlier in the process. Round 4: PARSE with --neutraln --neutralc and the titratable residue at the (neutral) chain end.",
    note="Trusted: z3, symx proxies, the PROPKA stub's contract (row per group read from the PDB columns, arbitrary pKa). Structures are template tripeptides; residue numbers/chain ids concrete. Known findings (terminal groups never titrated; guard lists that let an unparameterisable state through) are listed in known_findings.json.",
    technique="symbolic execution of real code on z3 Real proxies (symx) + SMT verdict per path",
    design="DESIGN.md section 3 C06",
)
