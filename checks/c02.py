"""C02 - every residue carries the formal charge of its protonation and terminal state.

K1 (symbolic): real Biomolecule.set_termini / assign_termini / apply_patch on
chains whose composition is symbolic (residue kinds, hidden chain ends marked
by OXT, closure distance, neutral-termini flags): termini land on exactly the
chain ends, once, none for cyclic chains.
K2 (symbolic): the integrality guard utilities.noninteger_charge and the
four-decimal rounding of Residue.charge for all real charges.
K3 (table): formal charge of every (force field, residue state, position) on
the real pipeline (shared with C01's table).
"""
from __future__ import annotations

from symx import core, strs
from symx.core import And, Iff, Implies, Not, Or
from symx.run import Obligation
from symx.shims import builtin_shims, patched

from . import c01, fixtures

PROP = "C02"

KINDS = ["ALA", "PRO", "GLY", "WAT", "LIG"]


def _lines(chains, final_ter=True, hydrogens=False, blank_elements=False):
    """chains: list of (chain id, [(kind, has_oxt)]) -> PDB lines with peptide geometry"""
    lines = []
    serial = 1
    for ci, (cid, residues) in enumerate(chains):
        origin = (0.0, 30.0 * ci, 0.0)
        for i, (kind, oxt) in enumerate(residues):
            off = (origin[0] - 3.8 * i, origin[1], origin[2])
            if kind in ("ALA", "PRO", "GLY"):
                rl = fixtures.residue_lines(kind, cid, i + 1, serial, off, heavy_only=not hydrogens)
                if oxt:
                    ref = fixtures.pristine_definition().map["C" + kind].map["OXT"]
                    rl.append(fixtures.atom_line(serial + len(rl), "OXT", kind, cid, i + 1, ref.x + off[0], ref.y + off[1], ref.z + off[2]))
            elif kind == "WAT":
                rl = fixtures.residue_lines("WAT", cid, i + 1, serial, (off[0], off[1] + 6.0, off[2]), record="HETATM")
            else:
                rl = [fixtures.atom_line(serial, "C1", "LIG", cid, i + 1, off[0], off[1] + 6.0, off[2] + 3.0, record="HETATM"), fixtures.atom_line(serial + 1, "O1", "LIG", cid, i + 1, off[0] + 1.2, off[1] + 6.0, off[2] + 3.0, record="HETATM")]
            serial += len(rl)
            lines += rl
        if final_ter or ci < len(chains) - 1:
            lines.append("TER")
    if blank_elements:
        lines = [ln[:66] if ln.startswith(("ATOM", "HETATM")) else ln for ln in lines]
    return lines


def _expected(chains, cyclic):
    """independent statement of where chain ends are.  Returns (set of N-terminal keys, set of C-terminal keys)"""
    nterm, cterm = set(), set()
    for ci, (cid, residues) in enumerate(chains):
        amino = [k in ("ALA", "PRO", "GLY") for k, _ in residues]
        # peptide segments: split after every residue carrying OXT
        segs, cur = [], []
        for i, (k, oxt) in enumerate(residues):
            cur.append(i)
            if oxt and amino[i]:
                segs.append(cur)
                cur = []
        if cur:
            segs.append(cur)
        for si, seg in enumerate(segs):
            whole = len(segs) == 1
            if whole and cyclic.get(ci):
                continue
            # first amino acid of the segment after leading non-polymer residues (mirror image of the C-terminal rule)
            j0 = 0
            while j0 < len(seg) and not amino[seg[j0]]:
                j0 += 1
            if j0 < len(seg):
                nterm.add((ci, seg[j0]))
            # last amino acid of the segment before trailing non-polymer residues
            j = len(seg) - 1
            while j >= 0 and not amino[seg[j]]:
                j -= 1
            if j >= 0:
                cterm.add((ci, seg[j]))
    return nterm, cterm


def h_termini(eng, layout, first=None, na=3, strict=False):
    from pdb2pqr import aa
    from pdb2pqr import biomolecule as biomol

    if layout == "kinds":
        # one chain of three residues of symbolic kind + a second chain of 0-2 residues
        a = [(KINDS[first if (i == 0 and first is not None) else eng.choice(f"a{i}", len(KINDS))], False) for i in range(na)]
        nb = eng.choice("nb", 3)
        b = [(["ALA", "WAT", "LIG"][eng.choice(f"b{i}", 3)], False) for i in range(nb)]
        chains = [("A", a)] + ([("B", b)] if nb else [])
    elif layout == "hidden-ends":
        # five amino acids under one chain id; any subset of the first four carries OXT (hidden chain ends)
        kinds = ["ALA", "GLY", "ALA", "PRO", "ALA"]
        a = [(kinds[i], bool(eng.flag(f"oxt{i}")) if i < 4 else False) for i in range(5)]
        chains = [("A", a), ("B", [("GLY", False), ("ALA", False)])]
    elif layout == "blank-chain":
        a = [(KINDS[eng.choice(f"a{i}", 3)], False) for i in range(2)]
        chains = [("", a + [("WAT", False)])]
    elif layout == "blank-two-chains":
        # two chains with blank chain ids, separated only by TER records; the final TER is optional
        a = [(KINDS[eng.choice(f"a{i}", 3)], False) for i in range(2)]
        b = [(KINDS[eng.choice(f"b{i}", 3)], False) for i in range(2)]
        chains = [("", a), ("", b)]
        final_ter = bool(eng.flag("final_ter"))
    elif layout == "protonated-input":
        # the input already carries its hydrogens (e.g. a PQR / --pdb-output file fed back in), with or without element columns
        a = [(KINDS[eng.choice(f"a{i}", 3)], False) for i in range(2)]
        chains = [("A", a), ("B", [("GLY", False), ("ALA", False)])]
        input_kw = dict(hydrogens=True, blank_elements=bool(eng.flag("blank_element_columns")))
    else:
        raise KeyError(layout)
    neutraln, neutralc = eng.flag("neutraln"), eng.flag("neutralc")
    if layout != "protonated-input":
        input_kw = {}
    bm, _ = fixtures.biomolecule(_lines(chains, final_ter if layout == "blank-two-chains" else True, **input_kw))
    # closure distance of every chain (N of first, C of last) symbolic
    close = {}
    pairs = {}
    ends = {}
    for ci, (cid, residues) in enumerate(chains):
        # head-to-tail closure is a fact about the peptide: first and last *amino acid* of the chain, whatever waters, ions or
        # ligands share the chain id before or after it (wwPDB files list them under the id of the nearest chain)
        amino_idx = [i for i, (k, _) in enumerate(residues) if k in ("ALA", "PRO", "GLY")]
        if len(amino_idx) > 1:
            close[ci] = eng.real(f"closure{ci}")
            eng.assume(close[ci] > 0)
            ends[ci] = (amino_idx[0], amino_idx[-1])
    real = biomol.util.distance
    res_by_key = {}
    for r in bm.residues:
        # identify residues by geometry (chain ids may be reassigned by the constructor): chains are 30 A apart in y
        ci = int((r.atoms[0].y + 10.0) // 30.0)
        res_by_key[(ci, r.res_seq - 1)] = r
    for ci, (cid, residues) in enumerate(chains):
        if ci in close:
            first, last = res_by_key[(ci, ends[ci][0])], res_by_key[(ci, ends[ci][1])]
            pairs[(tuple(first.map["N"].coords), tuple(last.map["C"].coords))] = close[ci]

    def distance(p, q):
        return pairs.get((tuple(p), tuple(q)), None) if (tuple(p), tuple(q)) in pairs else real(p, q)

    class U:
        def __getattr__(self, name):
            return getattr(biomol.util, name)

    u = U()
    u.distance = distance
    with patched((biomol, "util", u)):
        try:
            bm.set_termini(neutraln=neutraln, neutralc=neutralc)
        except (IndexError, KeyError, ValueError) as e:
            desc = " / ".join(f"{cid or '_'}:" + ",".join(k + ("*" if o else "") for k, o in rs) for cid, rs in chains)
            # C02 speaks about successful runs only; C12 (strict) requires well-formed structures to be processed
            eng.check(not strict, "well-formed-structure-processed" if strict else "loud-failure-tolerated", note=f"{desc}: set_termini raised {type(e).__name__}: {str(e)[:80]}")
            return
    # the chain view (bm.chains, from which bm.atoms, --clean and --pdb-output are produced) lists every residue exactly once
    in_chains = [id(r) for c in bm.chains for r in c.residues]
    eng.check(sorted(in_chains) == sorted(id(r) for r in bm.residues), "chain-view-agrees-with-residues", note=f"after set_termini the chains hold {len(in_chains)} residue entries ({len(set(in_chains))} distinct), the structure has {len(bm.residues)} residues")
    # the path condition fixes every closure comparison the code made; the oracle is evaluated under it
    got_n = {k for k, r in res_by_key.items() if getattr(r, "is_n_term", 0)}
    got_c = {k for k, r in res_by_key.items() if getattr(r, "is_c_term", 0)}
    desc = " / ".join(f"{cid or '_'}:" + ",".join(k + ("*" if o else "") for k, o in rs) for cid, rs in chains)
    eng.note(f"{desc} -> N{sorted(got_n)} C{sorted(got_c)}")
    # enumerate the cyclic / non-cyclic cases of the symbolic closure distances (strict < 1.35 = cyclic, as documented)
    import itertools

    for combo in itertools.product([False, True], repeat=len(close)):
        cyc = dict(zip(close, combo))
        cond = And(*[(close[ci] < 1.35) if c else (close[ci] >= 1.35) for ci, c in cyc.items()]) if cyc else True
        want_n, want_c = _expected(chains, cyc)
        eng.check(Implies(cond, got_n == want_n), "n-termini-on-chain-starts", note=f"{desc} (cyclic {cyc}): N-terminal residues {sorted(got_n)}, chain starts are {sorted(want_n)}")
        eng.check(Implies(cond, got_c == want_c), "c-termini-on-chain-ends", note=f"{desc} (cyclic {cyc}): C-terminal residues {sorted(got_c)}, chain ends are {sorted(want_c)}")
    for k, r in res_by_key.items():
        if not isinstance(r, aa.Amino):
            continue
        ref = r.reference.map
        n_patch = [p for p in r.patches if p in ("NTERM", "NEUTRAL-NTERM")]
        c_patch = [p for p in r.patches if p in ("CTERM", "NEUTRAL-CTERM")]
        eng.check((k in got_n) == bool(n_patch) and (k in got_c) == bool(c_patch), "patched-iff-terminal", note=f"{desc}: residue {k} patches {r.patches}")
        eng.check(("OXT" in ref) == (k in got_c), "oxt-in-topology-iff-c-terminal", note=f"{desc}: residue {k}: OXT in topology {('OXT' in ref)}, C-terminal {k in got_c}")
        eng.check(("H2" in ref) == (k in got_n), "h2-in-topology-iff-n-terminal", note=f"{desc}: residue {k}: H2 in topology {('H2' in ref)}, N-terminal {k in got_n}")
        if k in got_n:
            # proline: the ring nitrogen has two heavy neighbours; pdb2pqr documents that it always takes the NEUTRAL-NTERM topology
            eng.check(set(n_patch) == ({"NEUTRAL-NTERM"} if (neutraln or r.name == "PRO") else {"NTERM"}), "n-terminus-kind", note=f"{desc}: residue {k} N-terminal patches {n_patch} with neutraln={neutraln}")
        if k in got_c:
            eng.check(set(c_patch) == ({"NEUTRAL-CTERM"} if neutralc else {"CTERM"}), "c-terminus-kind", note=f"{desc}: residue {k} C-terminal patches {c_patch} with neutralc={neutralc}")


def h_guard(eng):
    """noninteger_charge(c) == '' iff |c - round(c)| <= 1e-3 (documented tolerance)"""
    from pdb2pqr import utilities

    c = eng.real("c")
    eng.assume(And(c > -1000, c < 1000))
    with patched(*(builtin_shims(utilities, ("round", "abs")) if eng.symbolic else [])):
        msg = utilities.noninteger_charge(c)
    import math

    fl = core.SymReal(__import__("z3").ToReal(core.sym_floor(c).t)) if eng.symbolic else math.floor(c)
    frac = c - fl
    near = Or(frac <= 0.001, frac >= 0.999)
    eng.check(Iff(near, msg == ""), "guard-tolerance", note=f"noninteger_charge returned {'an error' if msg else 'no error'}")


def h_residue_charge(eng, n):
    """Residue.charge = sum of atom charges rounded to four decimals"""
    from pdb2pqr import residue as residue_mod

    bm, _ = fixtures.prepared(fixtures.peptide_lines(["GLY"]))
    r = bm.residues[0]
    qs = []
    for i, a in enumerate(r.atoms):
        if i < n:
            a.ffcharge = eng.real(f"q{i}", -2, 2)
            qs.append(a.ffcharge)
        else:
            a.ffcharge = None
    sh = builtin_shims(residue_mod, ("float",)) if eng.symbolic else []
    with patched(*sh):
        got = r.charge
    eng.check(core.close(got, sum(qs, 0), 0.00005 + 1e-9), "charge-is-rounded-sum", note="Residue.charge differs from the sum of its atom charges by more than half a unit of the fourth decimal")


def table_formal(ff, residues, neutral=False):
    r = c01.table_states(ff, residues, neutral)
    r["violations"] = [v for v in r["violations"] if v["label"] == "formal-charge-of-state"]
    return r


INPUT_NAMES = {  # residue name as spelled in the input -> (template, formal side-chain charge)
    "HIP": ("HIS", 1), "HSP": ("HIS", 1), "HID": ("HIS", 0), "HIE": ("HIS", 0), "HSD": ("HIS", 0), "HSE": ("HIS", 0),
    "ASH": ("ASP", 0), "GLH": ("GLU", 0), "LYN": ("LYS", 0), "CYM": ("CYS", -1), "TYM": ("TYR", -1), "AR0": ("ARG", 0),
}


def table_input_names(ff, names):
    """a residue that the INPUT already names by a protonation variant (HSP, HID, ASH, LYN ...) carries that variant's
    formal charge at every chain position (when the force field parameterises it fully there)"""
    from pdb2pqr import main

    rows, violations, samples = 0, [], []
    for nm in names:
        base, formal = INPUT_NAMES[nm]
        for pos in range(3):
            seq = ["ALA", "ALA", "ALA"]
            seq[pos] = base
            lines = [(ln[:17] + nm + ln[20:]) if ln.startswith("ATOM") and int(ln[22:26]) == pos + 1 else ln for ln in fixtures.peptide_lines(seq)]
            rows += 1
            case = {"ff": ff, "input_name": nm, "position": ["N-terminal", "internal", "C-terminal"][pos]}
            try:
                bm, defn = fixtures.prepared(lines)
                r = main.non_trivial(fixtures.Args(ff=ff, pka_method=None, debump=True, opt=True), bm, None, defn, False)
            except (ValueError, KeyError):
                continue  # loud (e.g. the force field has no such state at that position): C12's subject
            x = bm.residues[pos]
            if any(a.residue is x for a in r["missed_residues"]):
                continue  # reported as unassigned: not "fully parameterised"
            want = formal + (1 if pos == 0 else 0) + (-1 if pos == 2 else 0)
            if abs(x.charge - want) > 1e-3:
                violations.append({"label": "input-named-variant-has-its-formal-charge", "values": case, "reproduced": True, "replay_detail": f"residue named {nm} in the input ends as {x.ffname} with charge {x.charge:+.3f}, formal charge of that variant there is {want:+d}"})
            if len(samples) < 2:
                samples.append({**case, "ffname": str(x.ffname), "charge": x.charge})
    return {"table_rows": rows, "distinct": rows, "violations": violations, "samples": samples}


def table_strands(ff, kind, lengths):
    """nucleic-acid strands with free 5'/3' ends carry -1 per phosphate (the 5' phosphate is not
    modelled: n-1 phosphates), termini flagged on exactly the two ends, everything parameterised"""
    import itertools

    from pdb2pqr import main

    bases = ["DA", "DC", "DG", "DT"] if kind == "dna" else ["RA", "RC", "RG", "RU"]
    rows = 0
    violations = []
    samples = []
    for n in lengths:
        seqs = [list(p) for p in itertools.product(bases, repeat=n)] if n <= 2 else [[bases[(i + k) % 4] for i in range(n)] for k in range(4)]
        for seq in seqs:
            rows += 1
            case = {"ff": ff, "strand": "-".join(seq)}
            try:
                bm, defn = fixtures.prepared(fixtures.nucleic_lines(seq))
                args = fixtures.Args(ff=ff, pka_method=None, debump=True, opt=True)
                r = main.non_trivial(args, bm, None, defn, False)
            except Exception as e:  # noqa: BLE001
                violations.append({"label": "strand-processed", "values": case, "reproduced": True, "replay_detail": f"{type(e).__name__}: {str(e)[:120]}"})
                continue
            if r["missed_residues"]:
                violations.append({"label": "strand-parameterised", "values": case, "reproduced": True, "replay_detail": f"unassigned atoms {[(a.residue.name, a.name) for a in r['missed_residues']][:6]}"})
                continue
            total = sum(x.charge for x in bm.residues)
            if abs(total + (n - 1)) > 1e-3:
                violations.append({"label": "minus-one-per-phosphate", "values": case, "reproduced": True, "replay_detail": f"strand of {n} nucleotides ({n - 1} phosphates) carries {total}: {[(x.ffname, x.charge) for x in bm.residues]}"})
            five = [i for i, x in enumerate(bm.residues) if getattr(x, "is5term", 0)]
            three = [i for i, x in enumerate(bm.residues) if getattr(x, "is3term", 0)]
            if five != [0] or three != [n - 1]:
                violations.append({"label": "nucleic-termini-on-strand-ends", "values": case, "reproduced": True, "replay_detail": f"5' flags on {five}, 3' flags on {three}"})
            for i, x in enumerate(bm.residues):
                if 0 < i < n - 1 and abs(x.charge + 1) > 1e-3:
                    violations.append({"label": "internal-nucleotide-minus-one", "values": case, "reproduced": True, "replay_detail": f"internal nucleotide {x.ffname} carries {x.charge}"})
            if len(samples) < 2:
                samples.append({**case, "total": total})
    return {"table_rows": rows, "distinct": rows, "violations": violations, "samples": samples}


NA_FFS = {"dna": ["amber", "charmm", "tyl06"], "rna": ["amber", "charmm", "parse", "tyl06"]}


def obligations(tier):
    obs = [
        *[Obligation(f"termini-kinds-first={KINDS[k]}", h_termini, dict(layout="kinds", first=k, na=3 if tier == "quick" else 4), group="termini", time_cap=3000, max_paths=400000) for k in range(len(KINDS))],
        Obligation("termini-hidden-ends", h_termini, dict(layout="hidden-ends"), group="termini", time_cap=3000, max_paths=100000),
        Obligation("termini-blank-chain", h_termini, dict(layout="blank-chain"), group="termini", time_cap=1500, max_paths=100000),
        Obligation("termini-blank-two-chains", h_termini, dict(layout="blank-two-chains"), group="termini", time_cap=1500, max_paths=100000),
        Obligation("termini-protonated-input", h_termini, dict(layout="protonated-input"), group="termini", time_cap=1500, max_paths=100000),
        Obligation("guard", h_guard, {}, group="guard", time_cap=600),
    ]
    for n in (1, 2) if tier == "quick" else (1, 2, 3):
        obs.append(Obligation(f"residue-charge-n{n}", h_residue_charge, dict(n=n), group="guard", time_cap=1200))
    for ff in c01.FFS:
        residues = list(c01.STATES) if tier == "thorough" else ["ASP", "CYS", "LYS", "HIS", "ALA"]
        obs.append(Obligation(f"formal-{ff}", table_formal, dict(ff=ff, residues=residues), kind="table", group="formal"))
    for kind, ffs in NA_FFS.items():
        for ff in ffs:
            obs.append(Obligation(f"strands-{kind}-{ff}", table_strands, dict(ff=ff, kind=kind, lengths=[2, 3] if tier == "quick" else [2, 3, 4, 5]), kind="table", group="strands"))
    for ff in ("amber", "parse", "charmm") if tier == "quick" else ("amber", "charmm", "parse", "peoepb", "swanson", "tyl06"):
        obs.append(Obligation(f"input-names-{ff}", table_input_names, dict(ff=ff, names=list(INPUT_NAMES)), kind="table", group="formal"))
    obs.append(Obligation("formal-parse-neutral-termini", table_formal, dict(ff="parse", residues=list(c01.STATES) if tier == "thorough" else ["ASP", "CYS", "ALA", "PRO"], neutral=True), kind="table", group="formal"))
    # "the total charge is their integer sum": a successful run has an integral total, whatever else the run reports
    # (C12's charge harness on the real driver, total symbolic, an unparameterised atom present or not; round 7)
    from . import c12

    obs.append(Obligation("successful-run-has-integral-total", c12.h_charge, dict(ff=0, ligand=0), group="integral-total", time_cap=1500, max_paths=100000))
    return obs


def encoded():
    from pdb2pqr import biomolecule as biomol
    from pdb2pqr import residue, utilities

    B = biomol.Biomolecule
    return [B.set_termini, B.assign_termini, B.apply_patch, utilities.noninteger_charge, residue.Residue.charge.fget]


META = dict(
    stubs=[
        "termini: structures are real PDB text built per path from the symbolic composition (kinds, OXT markers) and read by the real reader/constructor; biomolecule.util.distance -> symbolic for the N(first)-C(last) closure pair of each chain",
        "guard: pdb2pqr.utilities.round/abs and pdb2pqr.residue.float -> symx shims",
    ],
    bounds=[
        "kinds: chain A of three (thorough four) residues over {ALA, PRO, GLY, water, unknown hetero group} + chain B of 0-2 residues over {ALA, water, hetero group}; hidden ends: five amino acids in one chain with any subset of the first four carrying OXT + a second chain; blank chain id variant; closure distance of each chain (N of its first amino acid to C of its last amino acid, whatever non-polymer residues share the chain id before/after) an arbitrary positive real (cyclic test at 1.35 A); --neutraln/--neutralc symbolic",
        "guard: every real charge in (-1000, 1000); residue charge: 1-2 (thorough 3) symbolic atom charges in [-2,2]",
        "formal charges: table lemma (finite, exhaustive over listed rows)",
    ],
    outside=["nucleic-acid strands in the SYMBOLIC part (they are covered by a table lemma: all 2-mers, rotating 3-5-mers, force fields that define them; single nucleotides and PARSE DNA are not parameterised by pdb2pqr at all)", "the composition 'the pipeline reaches exactly those states' for arbitrary structures (argued from K1 + C06 + C13)"],
    assumptions=["a chain end = first amino acid of a chain / of a segment following an OXT-bearing residue; last amino acid before trailing non-polymer residues; none when N(first)-C(last) < 1.35 A"],
    technique="symbolic execution of the real termini assignment over symbolic chain compositions and closure distances (symx) + SMT verdict per path; symbolic guard; table lemma for formal charges",
)

MANIFEST = dict(
    text="For C02: the real set_termini/assign_termini/apply_patch on structures whose composition is symbolic (residue kinds incl. waters and hetero groups, hidden chain ends marked by OXT, two chains, blank chain id), whose closure distance is an arbitrary real and with symbolic --neutraln/--neutralc: N-/C-terminal flags, patches and topology atoms (H2, OXT) sit on exactly the chain ends, once, of the requested kind, none for cyclic chains - the N-terminus on the first amino acid also when non-polymer residues precede it, and of the charged kind unless requested otherwise also when the input already carries hydrogens with or without element columns; the integrality guard noninteger_charge and the four-decimal rounding of Residue.charge for all real charges; formal charge of every listed (force field, state, position) as a table lemma on the real pipeline. Round 4: a residue the input already names by a protonation variant (HSP, HIP, HID, HIE, HSD, HSE, ASH, GLH, LYN, CYM, TYM, AR0) carries that variant formal charge at every chain position (table). Round 6: head-to-tail closure is judged on the first and last amino acid of the chain (found+fixed C02-F3). Round 5: after a chain is split at a hidden chain end the chain view lists every residue exactly once.",
    note="Trusted: z3, symx. Chains have at most five residues; nucleic acids are outside the symbolic part. The table lemma is exhaustive over its rows on template tripeptides, not symbolic.",
    technique="symbolic execution of real code over symbolic chain compositions (symx) + SMT verdict per path; table lemma",
    design="DESIGN.md section 3 C02",
)
