"""C12 - runs succeed on well-formed input, otherwise fail loudly leaving no output.

Failure side (symbolic): the real main_driver / non_trivial / check_files /
check_options / print_pqr run on symbolic options with every stage a recording
stub that raises a symbolically chosen exception (fault schedule), symbolic
residue charges and symbolic file existence.  Success side: table lemma over
(force field x residue x chain position) computed with the real pipeline.
"""
from __future__ import annotations

from symx import core
from symx.core import And, Implies, Not, Or
from symx.run import Obligation

from . import fixtures, flow

PROP = "C12"


def _pqr_opens(w):
    return [o for o in w.opens if o[0] == ("tagged", "output_pqr", "out.pqr") and "w" in o[1]]


def _first_index(w, name):
    for i, (n, _a, _k) in enumerate(w.log):
        if n == name:
            return i
    return None


def h_faults(eng, nexc, ff, pka, ligand, ffout):
    """every fault schedule over the stages x every option valuation"""
    shared = {}
    w = flow.World(eng, "r", True, shared, flow.EXCEPTIONS[:nexc])
    opts = flow.symbolic_options(eng, formatting=dict(pdb_output=0, apbs_input=0, ffout=ffout), fixed=dict(ff=ff, pka=pka, ligand=ligand))
    eng.assume(And(opts["ph"] >= 0, opts["ph"] <= 14))
    exc = flow.run_driver(w, opts)
    pq = _pqr_opens(w)
    stages = [n for n, _a, _k in w.log]
    eng.note(f"injected={w.injected} raised={type(exc).__name__ if exc else None} pqr_opens={len(pq)} stages={len(stages)}")
    if w.injected is not None:
        name, ename, pos = w.injected
        eng.check(exc is not None, "fault-propagates", note=f"{ename} raised by stage {name} was swallowed: main_driver returned normally")
        # position of the output open relative to the fault
        opened_before = [o for o in pq if o[2] < pos]
        after_print = "open" in stages[: pos - 1] and any(o[2] < pos for o in pq)
        if not after_print:
            eng.check(not pq, "no-output-on-failure", note=f"{ename} in stage {name}: the output PQR path was opened for writing ({len(pq)} times) although the pipeline failed")
        else:
            eng.check(len(opened_before) == 1, "output-once", note="output opened more than once")
    else:
        if exc is not None:
            # no injected fault: only the option checks may stop the run
            eng.check(not pq, "no-output-on-failure", note=f"run failed with {type(exc).__name__}: {exc} but the output PQR path was opened")
            eng.check(isinstance(exc, (RuntimeError, FileNotFoundError)), "option-errors-are-documented-types", note=f"unexpected {type(exc).__name__}: {exc}")
            return
        eng.check(len(pq) == 1, "output-once", note=f"successful run opened the output PQR {len(pq)} times")
        if len(pq) == 1:
            o = pq[0]
            last_model = max([i for i, (n, _a, _k) in enumerate(w.log) if flow.is_model_stage(n)] or [-1])
            eng.check(o[2] > last_model, "output-after-pipeline", note="the output PQR was opened before the last pipeline stage had returned")
            natoms = 4
            written = [t for t in o[3] if str(t).startswith("ATOM")]
            eng.check(len(written) == natoms, "output-complete", note=f"{len(written)} atom lines written for {natoms} atoms in one open/close")


def h_charge(eng, ff=0, ligand=0):
    """non-integral total charge -> error and no output; integral -> success"""
    q0, q1 = eng.real("q0"), eng.real("q1")
    eng.assume(And(q0 > -50, q0 < 50, q1 > -50, q1 < 50))
    w = flow.World(eng, "r", False, {}, [], charges=[q0, q1])
    w.unassigned_last = eng.flag("some_atom_without_parameters")  # the integrality requirement does not depend on it
    opts = flow.symbolic_options(eng, model=dict(clean=False, assign_only=eng.bool("assign_only"), debump=True, opt=True, drop_water=False, neutraln=False, neutralc=False), formatting=dict(whitespace=False, keep_chain=False, include_header=False, ffout=0, pdb_output=0, apbs_input=0), fixed=dict(ff=ff, pka=0, ligand=ligand))
    eng.assume(And(opts["ph"] >= 0, opts["ph"] <= 14))
    exc = flow.run_driver(w, opts)
    pq = _pqr_opens(w)
    t = q0 + q1
    import math

    frac = t - (core.SymReal(__import__("z3").ToReal(core.sym_floor(t).t)) if eng.symbolic else math.floor(t))  # in [0,1)
    far = And(frac > 0.01, frac < 0.99)  # further than 0.01 from every integer
    eng.note(f"raised={type(exc).__name__ if exc else None} opens={len(pq)}")
    eng.check(Implies(far, And(exc is not None, not pq)), "nonintegral-charge-fails", note=f"total charge deviates from an integer by more than 0.01 but the run {'succeeded' if exc is None else 'failed'} and opened the output {len(pq)} times")
    eng.check(Implies(frac == 0, And(exc is None, len(pq) == 1)), "integral-charge-succeeds", note=f"integral total charge but run raised {type(exc).__name__ if exc else None}")


def h_unreadable_record(eng):
    """failure side, parsing stage: an ATOM/HETATM record whose numeric field cannot be read (overflow asterisks, text, a
    doubled decimal point - in the residue number or a coordinate) makes the real read_pdb raise; it is not skipped, so no
    structure silently lacking that atom is processed and written (field, garbage and record type are selectors)"""
    import io as _io

    from pdb2pqr import pdb

    rec = ["ATOM  ", "HETATM"][eng.choice("record", 2)]
    field = eng.choice("field", 4)  # residue number, x, y, z
    g = eng.choice("garbage", 5)
    junk = (["****", "1.2.", " abc", "1,23", "--1 "] if field == 0 else ["********", " 1.2.3  ", "   abc  ", "  12,345", "  --1.0 "])[g]
    good = f"{rec}{7:5d}  CA  SER A{20:4d}    {11.104:8.3f}{6.134:8.3f}{-6.504:8.3f}  1.00  0.00           C  "
    a, b = [(22, 26), (30, 38), (38, 46), (46, 54)][field]
    bad = good[:a] + junk[: b - a].ljust(b - a) + good[b:]
    lines = ["HEADER    TEST", good.replace("  CA ", "  N  ", 1).replace(f"{7:5d}", f"{6:5d}", 1), bad, "TER", "END"]
    try:
        recs, _errs = pdb.read_pdb(_io.StringIO("\n".join(lines) + "\n"))
    except (ValueError, IndexError, KeyError) as e:
        eng.check(True, "unreadable-record-fails-loudly", note=type(e).__name__)
        return
    n = len([r for r in recs if isinstance(r, (pdb.ATOM, pdb.HETATM))])
    eng.check(False, "unreadable-record-fails-loudly", note=f"read_pdb returned normally with {n} coordinate records for a file whose second {rec.strip()} record has {junk!r} in {['the residue number', 'x', 'y', 'z'][field]}: {bad!r}")


def h_options(eng):
    """every unusable option / file combination is refused before any work"""
    w = flow.World(eng, "r", False, {}, [])
    w.files_symbolic = True
    opts = flow.symbolic_options(eng, formatting=dict(whitespace=False, keep_chain=False, include_header=False, ffout=0, pdb_output=0, apbs_input=0))
    if opts["userff"] is not None and eng.flag("ff_default_kept_next_to_userff"):
        opts["ff"] = "PARSE"  # what argparse delivers for `--userff X` alone: --ff keeps its default
    exc = flow.run_driver(w, opts)
    pq = _pqr_opens(w)
    ex = lambda p: w.shared.get(f"exists@{flow.describe(p)}", True)
    parse = opts["ff"] is not None and opts["ff"].lower() == "parse"
    bad = Or(
        opts["ph"] < 0,
        opts["ph"] > 14,
        And(opts["neutraln"], not parse),
        And(opts["neutralc"], not parse),
        opts["userff"] is not None and opts["usernames"] is None,
        opts["usernames"] is not None and not ex(opts["usernames"]),
        opts["userff"] is not None and not ex(opts["userff"]),
        opts["ligand"] is not None and not ex(opts["ligand"]),
    )
    work = [n for n, _a, _k in w.log if n not in ("io.test_dat_file", "open")]
    eng.note(f"raised={type(exc).__name__ if exc else None} work={len(work)}")
    eng.check(Implies(bad, And(exc is not None, not work, not pq)), "bad-options-refused-before-work", note=f"unusable option/file combination: raised={type(exc).__name__ if exc else None}, {len(work)} pipeline stages ran, output opened {len(pq)} times")
    eng.check(Implies(Not(bad), exc is None), "good-options-accepted", note=f"usable options refused: {type(exc).__name__ if exc else None}: {exc}")


def h_empty(eng, ligand):
    """no biomolecule heavy atoms at all (garbage / empty / hetero-only / water-only + --drop-water
    input) and no ligand: the run must fail and leave no output"""
    w = flow.World(eng, "r", False, {}, [])
    empty = eng.flag("no_biomolecule_atoms")
    w.num_heavy = 0 if empty else 100
    w.num_missing = 0 if empty else eng.int("num_missing", 0, 100)
    opts = flow.symbolic_options(eng, fixed=dict(ff=0, pka=0, ligand=ligand), formatting=dict(whitespace=False, keep_chain=False, include_header=False, ffout=0, pdb_output=0, apbs_input=0))
    eng.assume(And(opts["ph"] >= 0, opts["ph"] <= 14))
    clean, assign_only = opts["clean"], opts["assign_only"]
    exc = flow.run_driver(w, opts)
    pq = _pqr_opens(w)
    eng.derived["skips_repair_check"] = core.Or(clean, assign_only)
    eng.derived["empty"] = empty
    eng.note(f"empty={empty} ligand={ligand} raised={type(exc).__name__ if exc else None} opens={len(pq)}")
    if empty and not ligand:
        eng.check(exc is not None and not pq, "empty-input-fails-without-output", note=f"input without any biomolecule heavy atom: run {'raised ' + type(exc).__name__ if exc else 'returned normally'} and opened the output {len(pq)} times")


def h_ligand_charge(eng, ff):
    """the integrality check sees the FINAL charges, including the ligand's"""
    from checks.c16 import _MolAtom

    q1, q2 = eng.real("q_lig1"), eng.real("q_lig2")
    eng.assume(And(q1 > -5, q1 < 5, q2 > -5, q2 < 5))
    w = flow.World(eng, "r", False, {}, [])
    w.charge_from_atoms = True
    w.residue_specs = [("ALA", [("N", "ATOM", True), ("CA", "ATOM", True)]), ("LIG", [("L1", "HETATM", False), ("L2", "HETATM", False)])]
    w.ligand_atoms = {"L1": _MolAtom("L1", q1, 1.7), "L2": _MolAtom("L2", q2, 1.6)}
    opts = flow.symbolic_options(eng, fixed=dict(ff=ff, pka=0, ligand=1), model=dict(clean=False, assign_only=False, debump=True, opt=True, drop_water=False, neutraln=False, neutralc=False), formatting=dict(whitespace=False, keep_chain=False, include_header=False, ffout=0, pdb_output=0, apbs_input=0))
    eng.assume(And(opts["ph"] >= 0, opts["ph"] <= 14))
    exc = flow.run_driver(w, opts)
    pq = _pqr_opens(w)
    import math

    t = 0.25 + q1 + q2  # two parameterised protein atoms carry 0.125 each
    frac = t - (core.SymReal(__import__("z3").ToReal(core.sym_floor(t).t)) if eng.symbolic else math.floor(t))
    far = And(frac > 0.01, frac < 0.99)
    eng.note(f"raised={type(exc).__name__ if exc else None} opens={len(pq)}")
    eng.check(Implies(far, And(exc is not None, not pq)), "nonintegral-total-with-ligand-fails", note=f"protein + ligand charges sum to a non-integer but the run {'succeeded' if exc is None else 'failed'} and opened the output {len(pq)} times")
    eng.check(Implies(frac == 0, exc is None), "integral-total-with-ligand-succeeds")


# ---------------------------------------------------------------------------
# success side: table lemma (finite, exhaustive, concrete runs of the real pipeline)
# ---------------------------------------------------------------------------

AMINO = ["ALA", "ARG", "ASN", "ASP", "CYS", "GLN", "GLU", "GLY", "HIS", "ILE", "LEU", "LYS", "MET", "PHE", "PRO", "SER", "THR", "TRP", "TYR", "VAL"]
FFS = ["amber", "charmm", "parse", "peoepb", "swanson", "tyl06"]


def table_success(ff, residues, kind, neutral=False):
    """Run the real pipeline (default options) on complete standard residues:
    every atom parameterised, total charge integral, no exception."""
    from pdb2pqr import main

    rows = 0
    violations = []
    samples = []
    for res in residues:
        for pos in (0, 1, 2) if kind == "amino" else (0,):
            rows += 1
            if kind == "amino":
                seq = ["ALA", "ALA", "ALA"]
                seq[pos] = res
                lines = fixtures.peptide_lines(seq)
                idx = pos
            elif kind == "water":
                lines = fixtures.peptide_lines(["ALA", "ALA", "ALA"]) + fixtures.residue_lines("WAT", "A", 10, serial0=90, offset=(0.0, 9.0, 0.0), record="HETATM") + ["TER"]
                idx = 3
            else:
                lines = fixtures.nucleic_lines(res)
                idx = None
            case = {"ff": ff, "residue": res, "position": ["N-terminal", "internal", "C-terminal"][pos] if kind == "amino" else kind, "neutral_termini": neutral}
            try:
                bm, defn = fixtures.prepared(lines, neutraln=neutral, neutralc=neutral)
                args = fixtures.Args(ff=ff, pka_method=None, debump=True, opt=True, neutraln=neutral, neutralc=neutral)
                r = main.non_trivial(args, bm, None, defn, False)
                miss = [f"{a.residue.name}{a.residue.res_seq}:{a.name}" for a in r["missed_residues"]]
                if miss:
                    violations.append({"label": "all-atoms-parameterised", "values": case, "note": f"unassigned atoms: {miss[:8]}", "reproduced": True, "replay_detail": f"real pipeline on a complete standard structure leaves {miss[:8]} without parameters"})
            except Exception as e:  # noqa: BLE001
                violations.append({"label": "run-succeeds", "values": case, "note": f"{type(e).__name__}: {str(e)[:160]}", "reproduced": True, "replay_detail": f"real pipeline raised {type(e).__name__}: {str(e)[:160]}"})
            if len(samples) < 2:
                samples.append(case)
    return {"table_rows": rows, "distinct": rows, "violations": violations, "samples": samples}


def table_success_layouts(ff):
    """complete standard structures in the layouts crystal structures come in: insertion-code numbering (two
    consecutive residues that differ only by insertion code), waters that share the chain id of a peptide or of a
    nucleic-acid strand and are listed after it"""
    from pdb2pqr import main

    rows, violations, samples = 0, [], []

    def water(chain, num, serial, y):
        return fixtures.residue_lines("WAT", chain, num, serial0=serial, offset=(0.0, y, 0.0), record="HETATM")

    structs = {}
    for a, b in (("PHE", "GLU"), ("GLU", "PHE"), ("ALA", "LYS")):
        lines, serial = [], 1
        for i, (name, num, ic) in enumerate([("ALA", 7, " "), (a, 8, " "), (b, 8, "A"), ("ALA", 9, " ")]):
            rl = fixtures.residue_lines(name, "A", num, serial, (-3.8 * i, 0.0, 0.0), icode=ic)
            serial += len(rl)
            lines += rl
        structs[f"insertion-code-{a}8-{b}8A"] = lines + ["TER"]
    structs["peptide-then-waters-same-chain"] = fixtures.peptide_lines(["ALA", "SER", "GLY"], ter=False) + water("A", 20, 90, 9.0) + water("A", 21, 95, 13.0) + ["TER"]
    for kind, bases, ffs in (("rna", ["RG", "RA", "RC", "RU"], ("amber", "charmm", "parse", "tyl06")), ("dna", ["DA", "DC", "DG", "DT"], ("amber", "charmm", "tyl06"))):
        if ff in ffs:
            structs[f"{kind}-strand-then-waters-same-chain"] = fixtures.nucleic_lines(bases, ter=False) + water("A", 30, 500, 12.0) + water("A", 31, 505, 16.0) + ["TER"]
            structs[f"{kind}-strand-then-waters-other-chain"] = fixtures.nucleic_lines(bases) + water("W", 30, 500, 12.0) + ["TER"]
    for name, lines in structs.items():
        rows += 1
        case = {"ff": ff, "structure": name}
        try:
            bm, defn = fixtures.prepared(lines)
            r = main.non_trivial(fixtures.Args(ff=ff, pka_method=None, debump=True, opt=True), bm, None, defn, False)
            miss = [f"{a.residue.name}{a.residue.res_seq}:{a.name}" for a in r["missed_residues"]]
            if miss:
                violations.append({"label": "all-atoms-parameterised", "values": case, "reproduced": True, "replay_detail": f"{name}: unassigned atoms {miss[:8]}"})
            nres = len([x for x in bm.residues])
            want = len({(ln[21], ln[22:27]) for ln in lines if ln.startswith(("ATOM", "HETATM"))})
            if nres != want:
                violations.append({"label": "residues-kept-apart", "values": case, "reproduced": True, "replay_detail": f"{name}: {nres} residues in the model, the input has {want}"})
        except Exception as e:  # noqa: BLE001
            violations.append({"label": "run-succeeds", "values": case, "reproduced": True, "replay_detail": f"{name}: real pipeline raised {type(e).__name__}: {str(e)[:160]}"})
        if len(samples) < 2:
            samples.append(case)
    return {"table_rows": rows, "distinct": rows, "violations": violations, "samples": samples}


def table_planar_dihedrals():
    """utilities.dihedral (called for every torsion of every residue in debumping and optimisation set-up) returns a
    value for exactly planar atom quadruples - cis and trans, in planes whose unit normals do not square to exactly 1
    in floating point - instead of raising (math domain error aborts the whole run).  Finite menu of three-decimal
    coordinates in the planes x = y, x = 2y, x + y + z = 0 (table lemma: enumeration, not symbolic)."""
    from pdb2pqr import utilities

    rows, violations = 0, []
    planes = {"x=y": lambda a, b: (a, a, b), "x=2y": lambda a, b: (2 * a, a, b), "x+y+z=0": lambda a, b: (a, b, -a - b)}
    vals = [0.123, 1.457, -2.311, 3.079, 0.998, -0.456]
    def cross(u, v):
        return (u[1] * v[2] - u[2] * v[1], u[2] * v[0] - u[0] * v[2], u[0] * v[1] - u[1] * v[0])

    for pname, f in planes.items():
        for i in range(36):
            quad = [tuple(round(v, 3) for v in f(vals[(i + k) % 6], vals[(i // 6 + 2 * k + 1) % 6])) for k in range(4)]
            b = [tuple(quad[k + 1][j] - quad[k][j] for j in range(3)) for k in range(3)]
            if not any(cross(b[0], b[1])) or not any(cross(b[1], b[2])):
                continue  # three collinear atoms: the torsion is undefined, not the subject here
            rows += 1
            try:
                v = utilities.dihedral(*[list(p) for p in quad])
                if v != v:
                    raise ValueError("nan")
            except (ValueError, ZeroDivisionError) as e:
                violations.append({"label": "dihedral-defined-for-planar-atoms", "values": {"plane": pname, "points": str(quad)}, "reproduced": True, "replay_detail": f"utilities.dihedral raised {type(e).__name__}: {e} for coplanar points {quad}"})
    return {"table_rows": rows, "distinct": rows, "violations": violations, "samples": [{"rows": rows}]}


def obligations(tier):
    obs = []
    obs.append(Obligation("success-planar-dihedrals", table_planar_dihedrals, {}, kind="table", group="success"))
    # protonated acids (named ASH / GLH in the input) through every history of the real carboxylic optimisation + cleanup end
    # with one acid proton, i.e. a state every force field that knows ASH / GLH parameterises to an integral charge (C03/C14's harness)
    from . import c14

    for resname in ("ASH", "GLH"):
        obs.append(Obligation(f"success-carboxylic-{resname}", c14.h_carboxylic_site, dict(resname=resname, prop="C03"), group="success-carboxylic", time_cap=1500, max_paths=100000))
    for ff in ("amber", "parse", "charmm") if tier == "quick" else ("amber", "charmm", "parse", "peoepb", "swanson", "tyl06"):
        obs.append(Obligation(f"success-layouts-{ff}", table_success_layouts, dict(ff=ff), kind="table", group="success"))
    for ff in (0, 1, 2):
        for pka in (0, 1):
            for ligand in (0, 1):
                for ffout in (0, 1, 2):
                    if tier == "quick" and (ff, pka, ligand, ffout) not in ((0, 1, 0, 0), (1, 0, 1, 2), (2, 1, 0, 1), (0, 0, 0, 1)):
                        continue
                    obs.append(Obligation(f"faults-ff{ff}-pka{pka}-lig{ligand}-ffout{ffout}", h_faults, dict(nexc=2 if tier == "quick" else 6, ff=ff, pka=pka, ligand=ligand, ffout=ffout), group="faults", time_cap=3000, max_paths=400000))
    obs += [
        Obligation("charge-ff0-lig0", h_charge, dict(ff=0, ligand=0), group="charge", time_cap=1200),
        Obligation("charge-ff1-lig1", h_charge, dict(ff=1, ligand=1), group="charge", time_cap=1200),
        Obligation("options", h_options, {}, group="options", time_cap=1200),
        Obligation("empty-input-lig0", h_empty, dict(ligand=0), group="empty", time_cap=1200),
        Obligation("ligand-charge-ff0", h_ligand_charge, dict(ff=0), group="charge", time_cap=1200),
    ]
    for ff in FFS:
        obs.append(Obligation(f"success-amino-{ff}", table_success, dict(ff=ff, residues=AMINO if tier == "thorough" else AMINO[::3] + ["GLY", "PRO", "HIS", "CYS"], kind="amino"), kind="table", group="success"))
        obs.append(Obligation(f"success-water-{ff}", table_success, dict(ff=ff, residues=["WAT"], kind="water"), kind="table", group="success"))
    from . import c02

    for kind, ffs in c02.NA_FFS.items():
        for ff in ffs:
            obs.append(Obligation(f"success-{kind}-{ff}", c02.table_strands, dict(ff=ff, kind=kind, lengths=[2, 3] if tier == "quick" else [2, 3, 4]), kind="table", group="success"))
    # success side, chain bookkeeping: several peptides under one (or a blank) chain id, each ending in OXT, must be processed
    for layout in ("hidden-ends", "blank-two-chains", "blank-chain") if tier == "thorough" else ("hidden-ends",):
        obs.append(Obligation(f"success-termini-{layout}", c02.h_termini, dict(layout=layout, strict=True), group="success-termini", time_cap=3000, max_paths=100000))
    # success side, --apbs-input: the grid sizing reads the PQR that has just been written (default or --whitespace layout); it
    # must not raise for any coordinate the writer can lay out - a failure there ends a well-formed run with an error AFTER
    # the output file exists (C17's parser harness, loud outcome only; round 6)
    from . import c17

    for ws in (False, True):
        for focus in (("x", "radius"), ("y", "radius"), ("z", "charge")):
            obs.append(Obligation(f"apbs-sizing-reads-written-pqr-{'+'.join(focus)}-{'ws' if ws else 'fixed'}", c17.h_parse, dict(focus=list(focus), ws=ws, kc=False, header="remark-text", natoms=2, first_small=True, sym_first=False, loud_only=True), group="apbs-sizing", time_cap=1200))
    obs.append(Obligation("unreadable-atom-record", h_unreadable_record, {}, group="unreadable", time_cap=600))
    obs.append(Obligation("success-amino-parse-neutral-termini", table_success, dict(ff="parse", residues=AMINO if tier == "thorough" else AMINO[::3] + ["GLY", "PRO", "HIS", "CYS"], kind="amino", neutral=True), kind="table", group="success"))
    return obs


def encoded():
    from pdb2pqr import main, utilities

    return [main.main_driver, main.non_trivial, main.transform_arguments, main.check_files, main.check_options, main.is_repairable, main.drop_water, main.print_pqr, main.print_pdb, utilities.noninteger_charge]


META = dict(
    stubs=[
        "every pipeline stage called by main_driver/non_trivial (io.get_definitions, io.get_molecule, setup_molecule, every Biomolecule method, Forcefield, Debump, HydrogenRoutines, run_propka, ligand.assign_parameters, header printing, io.dump_apbs) -> recording stub that returns a tagged dummy or raises a symbolically chosen exception",
        "pdb2pqr.main.open -> recording stub; pdb2pqr.main.Path.is_file -> symbolic boolean per path (options obligation)",
        "io.print_biomolecule_atoms, main.print_pqr, main.print_pdb, is_repairable, drop_water, noninteger_charge: REAL",
    ],
    bounds=[
        "options: clean, assign_only, debump, opt, drop_water, neutraln, neutralc, whitespace, keep_chain, include_header symbolic booleans; ff in {PARSE, amber, user-supplied} x titration method x ligand x ffout in {None, parse, CHARMM} enumerated as obligations (quick: 4 of the 36 combinations); pH symbolic real",
        "fault schedule: at most one injected exception per run (the first failure ends the run), at any stage call, type from {ValueError, RuntimeError} (quick) / + {KeyError, IndexError, TypeError, FileNotFoundError} (thorough)",
        "charge obligation: two residues with symbolic real charges in (-50, 50)",
        "success side: table lemma, exhaustive over the listed (force field x residue x position) rows, concrete runs of the real pipeline on template tripeptides (+ one water); quick uses a third of the amino acids",
    ],
    outside=[
        "exceptions arising inside geometry code on arbitrary well-formed coordinates (the success side is checked on template geometry only)",
        "faults after the PQR has been written (pdb output, APBS input)",
        "single nucleotides and DNA under PARSE (pdb2pqr has no parameters for them); nucleic strands are covered by the table lemma shared with C02",
    ],
    assumptions=["stage stubs return normally or raise; they do not corrupt shared state", "non-integral means deviating from an integer by more than 0.01 (must fail) / exactly integral (must succeed); the band in between is unconstrained"],
    technique="symbolic execution of the real driver functions over symbolic options and a symbolic fault schedule (symx) + SMT verdict per path; success side: exhaustive table lemma",
)

MANIFEST = dict(
    text="For C12: the real main_driver/non_trivial/check_files/check_options/print_pqr on symbolic option valuations with a symbolic fault schedule (any one stage raises any of the listed exception types): the exception always propagates and the output PQR path is never opened; without faults the output is opened exactly once, after the last pipeline stage returned, and all atom lines are written in it; symbolic residue charges: non-integral total fails with no output; symbolic file existence / pH / option combinations: every unusable combination is refused before any stage runs. Success side: several peptides under one or a blank chain id, each ending in OXT, are processed by the real set_termini (symbolic hidden chain ends), and an exhaustive table lemma over force field x residue x chain position on the real pipeline. Round 4 (success side, table): insertion-code numbering, waters sharing the chain id of a peptide or of a nucleic-acid strand and listed after it. Round 5 (success side): utilities.dihedral is defined for exactly planar atom quadruples (finite menu in three planes, table); protonated acids end with one acid proton after every history of the carboxylic optimisation + cleanup (C03/C14 harness).",
    note="Trusted: z3, symx, the stage stubs' contract (return or raise). The success side is a finite table on template geometry (exhaustive, not symbolic) - absence of exceptions on arbitrary coordinates is outside the claim. Known finding: PEOEPB cannot parameterise a C-terminal glycine.",
    technique="symbolic execution of real driver code over symbolic options + symbolic fault schedule (symx) + SMT verdict per path; table lemma for the success side",
    design="DESIGN.md section 3 C12",
)
