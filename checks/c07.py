"""C07 - every coordinate record of the first model of a PDB input is ingested.

K1: real pdb.read_pdb + main.drop_water + Biomolecule.__init__ on files whose
middle lines are symbolic selectors over a menu of record kinds (every
sequence up to the bound), against an independent column-slicing reader.
K2: real pdb.ATOM / pdb.HETATM / read_pdb on one coordinate line made of
layout strings (all field values symbolic), against the PDB column spec.
"""
from __future__ import annotations

import io as _io

from symx import core, rewrite, strs
from symx.core import And
from symx.run import Obligation
from symx.shims import builtin_shims, patched

from . import fixtures

PROP = "C07"


def _atom(rec, serial, name, res, chain, num, x, icode=" ", alt=" ", cut=None, eol=""):
    ln = fixtures.atom_line(serial, name, res, chain, num, x, 1.0, 2.0, icode=icode, altloc=alt, record=rec)
    if cut:
        ln = ln[:cut]
    return ln + eol


# kind -> function(i) -> list of lines.  x identifies the atom (unique per kind and position)
def _x(i, k):
    return 10.0 * (i + 1) + 0.125 * k


KINDS = [
    ("atom-new-residue", lambda i: [_atom("ATOM", 100 + i, "CA", "ALA", "A", 10 + i, _x(i, 0))]),
    ("atom-same-residue", lambda i: [_atom("ATOM", 100 + i, ["N", "CA", "C", "O", "CB", "CG"][i], "LEU", "A", 5, _x(i, 1))]),
    ("atom-insertion-code", lambda i: [_atom("ATOM", 100 + i, ["N", "CA", "C", "O", "CB", "CG"][i], "LEU", "A", 5, _x(i, 2), icode="A")]),
    ("atom-insertion-code-cut-after-z", lambda i: [_atom("ATOM", 100 + i, ["N", "CA", "C", "O", "CB", "CG"][i], "LEU", "A", 5, _x(i, 22), icode="B", cut=54)]),
    ("atom-negative-number", lambda i: [_atom("ATOM", 100 + i, "CA", "GLY", "A", -3 - i, _x(i, 3))]),
    ("atom-blank-chain", lambda i: [_atom("ATOM", 100 + i, "CA", "GLY", " ", 20 + i, _x(i, 4))]),
    ("atom-other-chain-same-number", lambda i: [_atom("ATOM", 100 + i, ["N", "CA", "C", "O", "CB", "CG"][i], "LEU", "B", 5, _x(i, 5))]),
    ("altloc-pair-A-first", lambda i: [_atom("ATOM", 100 + i, f"HD1{i}", "LEU", "A", 5, _x(i, 6), alt="A"), _atom("ATOM", 200 + i, f"HD1{i}", "LEU", "A", 5, _x(i, 6) + 0.5, alt="B")]),
    ("altloc-pair-B-first", lambda i: [_atom("ATOM", 100 + i, f"HD2{i}", "LEU", "A", 5, _x(i, 7), alt="B"), _atom("ATOM", 200 + i, f"HD2{i}", "LEU", "A", 5, _x(i, 7) + 0.5, alt="A")]),
    ("altloc-pair-alias-name", lambda i: [_atom("ATOM", 100 + i, "CD", "ILE", "A", 6, _x(i, 20), alt="A"), _atom("ATOM", 200 + i, "CD", "ILE", "A", 6, _x(i, 20) + 0.5, alt="B")] if i == 0 else [_atom("ATOM", 100 + i, ["", "HN", "1HB", "2HB", "3HB", "HN2"][i], "ILE", "A", 6, _x(i, 20), alt="A"), _atom("ATOM", 200 + i, ["", "HN", "1HB", "2HB", "3HB", "HN2"][i], "ILE", "A", 6, _x(i, 20) + 0.5, alt="B")]),
    ("hetatm-water", lambda i: [_atom("HETATM", 100 + i, "O", "HOH", "A", 30 + i, _x(i, 8))]),
    ("hetatm-water-blank-chain", lambda i: [_atom("HETATM", 100 + i, "O", "HOH", " ", 35 + i, _x(i, 24))]),
    ("water-in-atom-record", lambda i: [_atom("ATOM", 100 + i, "O", ["HOH", "WAT"][i % 2], "A", 45 + i, _x(i, 21))]),
    ("hetatm-water-serial-10000", lambda i: [_atom("HETATM", 10000 + i, "O", "HOH", "A", 40 + i, _x(i, 9))]),
    ("atom-serial-100000", lambda i: [_atom("ATOM", 99999, "CA", "ALA", "A", 70 + i, _x(i, 19)).replace("ATOM  99999", "ATOM 100000")]),
    ("hetatm-ligand", lambda i: [_atom("HETATM", 100 + i, "C1", "LIG", "A", 50 + i, _x(i, 10))]),
    ("atom-cut-after-z", lambda i: [_atom("ATOM", 100 + i, "CA", "SER", "A", 60 + i, _x(i, 11), cut=54)]),
    ("atom-cut-after-occupancy", lambda i: [_atom("ATOM", 100 + i, "CA", "SER", "A", 60 + i, _x(i, 12), cut=60)]),
    ("atom-crlf", lambda i: [_atom("ATOM", 100 + i, "CA", "THR", "A", 80 + i, _x(i, 13), eol="\r")]),
    ("atom-line-damaged", lambda i: [_atom("ATOM", 100 + i, "CA", "SER", "A", 65 + i, _x(i, 23), cut=[22, 26, 12][i % 3])]),
    ("hetatm-water-serial-of-another-atom", lambda i: [_atom("HETATM", [1, 2, 900][i % 3], "O", "HOH", "A", 75 + i, _x(i, 25))]),  # solvent block with its own numbering / wrapped serials
    ("hetatm-ligand-numbered-like-a-water", lambda i: [_atom("HETATM", 100 + i, ["C1", "C2", "O1", "O2", "N1", "S1"][i], "LIG", "A", 98, _x(i, 26))]),  # the closing water of the file is HOH A 98
    ("ENDMDL-without-MODEL", lambda i: ["ENDMDL"]),  # stray bookkeeping record: what follows still belongs to the only model
    ("TER", lambda i: ["TER"]),
    ("END", lambda i: ["END"]),
    ("blank-line", lambda i: [""]),
    ("whitespace-only-line", lambda i: ["   "]),
    ("REMARK", lambda i: ["REMARK   2 RESOLUTION.    1.90 ANGSTROMS."]),
    ("unknown-record", lambda i: ["FOOBAR  something the parser does not know"]),
    ("ANISOU", lambda i: ["ANISOU    1  N   ALA A   1     2406   1892   1614    198    519   -328       N  "]),
    ("CONECT", lambda i: ["CONECT  413  412  414"]),
]
KIND_NAMES = [k for k, _ in KINDS]
QUICK_KINDS = ["ENDMDL-without-MODEL", "hetatm-water-blank-chain", "atom-line-damaged", "water-in-atom-record", "atom-new-residue", "atom-same-residue", "atom-insertion-code", "altloc-pair-B-first", "altloc-pair-alias-name", "hetatm-water", "hetatm-water-serial-10000", "hetatm-ligand", "atom-cut-after-z", "TER", "END", "blank-line", "unknown-record"]

PREFIX = ["HEADER    TEST", _atom("ATOM", 1, "N", "GLY", "A", 1, 1.5), _atom("ATOM", 2, "CA", "GLY", "A", 1, 2.5)]
SUFFIX = [_atom("ATOM", 900, "CA", "ALA", "A", 99, 900.5), _atom("HETATM", 901, "O", "HOH", "A", 98, 901.5), "TER", "END"]
MODEL2 = ["MODEL        2", _atom("ATOM", 950, "CA", "ALA", "A", 1, 950.5), _atom("ATOM", 951, "CA", "ALA", "A", 99, 951.5), "ENDMDL"]


def _oracle(lines, drop):
    """Independent reader: PDB columns, first model, first alternate location,
    waters removed iff drop."""
    seen = {}
    order = []
    nmodel = 0
    for ln in lines:
        ln = ln.rstrip("\r\n")
        rec = ln[0:6].strip()
        if rec == "MODEL":
            nmodel += 1
            if nmodel > 1:
                break
        if rec not in ("ATOM", "HETATM"):
            continue
        if len(ln) < 54:
            continue  # a line without complete coordinates is not a record (it may be skipped, it must not affect others)
        ident = (ln[21], int(ln[22:26]), ln[26], ln[12:16].strip())
        resname = ln[17:20].strip()
        if drop and resname in ("HOH", "WAT"):
            continue
        if ident in seen:
            continue
        seen[ident] = float(ln[30:38])
        order.append((ident, float(ln[30:38])))
    return order


def h_records(eng, nlines, kinds, models, drop, first=None):
    from pdb2pqr import biomolecule as biomol
    from pdb2pqr import main, pdb

    menu = [KINDS[KIND_NAMES.index(k)] for k in kinds]
    chosen = []
    middle = []
    for i in range(nlines):
        k = first if (i == 0 and first is not None) else eng.choice(f"kind{i}", len(menu))
        chosen.append(menu[k][0])
        middle += menu[k][1](i)
    body = PREFIX + middle + SUFFIX
    noend = [ln for ln in body if ln not in ("END",)]
    if models in (True, "two-models"):
        lines = ["MODEL        1"] + noend + ["ENDMDL"] + MODEL2 + ["END"]
    elif models == "two-models-unpadded-labels":
        # "MODEL 1" written free-format (one blank), as converters and hand-edited files do
        lines = ["MODEL 1"] + noend + ["ENDMDL"] + ["MODEL 2"] + MODEL2[1:] + ["END"]
    elif models in ("two-models-from-0", "two-models-same-number", "two-models-from-5"):
        # the serial written on a MODEL record is a label: ensembles numbered from 0, sub-ensembles, concatenated files
        first, second = {"two-models-from-0": (0, 1), "two-models-same-number": (1, 1), "two-models-from-5": (5, 6)}[models]
        lines = [f"MODEL     {first:4d}"] + noend + ["ENDMDL"] + [f"MODEL     {second:4d}"] + MODEL2[1:] + ["END"]
    elif models == "one-model-noend":
        lines = ["MODEL        1"] + noend + ["ENDMDL"]
    elif models == "plain-noend":
        lines = body[:-1]
    else:
        lines = body
    eng.note(" | ".join(chosen))
    text = "\n".join(lines) + "\n"
    want = _oracle(lines, drop)
    try:
        records, errs = pdb.read_pdb(_io.StringIO(text, newline=""))
        if drop:
            records = main.drop_water(records)
        bm = biomol.Biomolecule(records, fixtures.definition())
    except Exception as e:  # noqa: BLE001 - a crash is loud; the property is about silent loss
        eng.check(True, "loud-failure-tolerated", note=f"{type(e).__name__}")
        eng.note(f"raised {type(e).__name__}: {str(e)[:80]}")
        return
    got = []
    grouping_ok = True
    by_x = {x: ident[:3] for ident, x in _oracle(lines, False)}  # x identifies the record: (chain, number, insertion code) as written
    for res in bm.residues:
        idents = set()
        for a in res.atoms:
            got.append(((a.res_seq, a.ins_code or " "), a.x))
            idents.add(by_x.get(a.x, (a.chain_id, a.res_seq, a.ins_code)))
        if len(idents) > 1:
            grouping_ok = False
    # atoms are identified by residue number, insertion code and their (unique) x coordinate: names may be canonicalised
    want_cmp = sorted(((i[1], i[2]), x) for i, x in want)
    got_cmp = sorted(got)
    missing = [w for w in want_cmp if w not in got_cmp]
    extra = [g for g in got_cmp if g not in want_cmp]
    eng.check(not missing, "every-record-ingested", note=f"sequence [{' | '.join(chosen)}] models={models} drop_water={drop}: records not in the structure: {missing[:4]}")
    eng.check(not extra, "nothing-extra", note=f"sequence [{' | '.join(chosen)}] models={models} drop_water={drop}: atoms that should not be in the structure (later model, later alternate location, or water with --drop-water): {extra[:4]}")
    eng.check(grouping_ok, "residue-grouping", note=f"sequence [{' | '.join(chosen)}]: records with different chain / residue number / insertion code share a residue object")
    eng.check(len(got_cmp) == len(set(got_cmp)), "no-duplicates")
    if drop:
        # C09: --drop-water equals running on the input with its water records deleted
        dry = [ln for ln in lines if not (ln[0:6].strip() in ("ATOM", "HETATM") and ln[17:20].strip() in ("HOH", "WAT"))]
        try:
            recs2, _ = pdb.read_pdb(_io.StringIO("\n".join(dry) + "\n", newline=""))
            bm2 = biomol.Biomolecule(recs2, fixtures.definition())
            shape = lambda b: [(r.name, r.res_seq, r.ins_code, [(a.name, a.x) for a in r.atoms]) for r in b.residues]
            eng.check(shape(bm) == shape(bm2), "drop-water-equals-deleted-waters", note=f"sequence [{' | '.join(chosen)}] layout={models}: --drop-water differs from reading the file with its water records deleted")
        except Exception as e:  # noqa: BLE001
            eng.note(f"dry file raised {type(e).__name__}")


# ---------------------------------------------------------------------------
# K1b: --drop-water removes a record iff its residue name IS a water name (symbolic residue name)
# ---------------------------------------------------------------------------


def h_drop_name(eng, rec, name_len):
    from pdb2pqr import main, pdb

    alpha = "HOWATD2"
    if eng.symbolic:
        res = strs.sym_name(eng, "res", name_len, alpha)
    else:
        res = "".join(chr(eng.int(f"res_c{k}")) for k in range(name_len))
    line = strs.fstring((rec + "      ")[:6], "  101  O   ", " " * (3 - name_len), res, " A  17       1.500   2.500   3.500  1.00 20.00           O  ")
    sh = (builtin_shims(pdb, ("int", "float")) + [(pdb, "str", strs.sym_str_t)] + rewrite.function_patches(main, "drop_water")) if eng.symbolic else []
    with patched(*sh):
        record = getattr(pdb, rec)(line)
        kept = main.drop_water([record])
    is_water = core.Or(strs._to_sb(res == "HOH"), strs._to_sb(res == "WAT"))
    eng.check(core.Iff(is_water, len(kept) == 0), "dropped-iff-water", note=f"--drop-water: {rec} record of residue {str(res)!r} was {'dropped' if not kept else 'kept'}")


# ---------------------------------------------------------------------------
# K2: one coordinate line, all fields symbolic
# ---------------------------------------------------------------------------

ALPHA_NAME = "ABCDEGHNOPSZ0123'*"
ALPHA_RES = "ABCDEGHILMNOPRSTUVWY0123"
ALPHA_ONE = "ABCXYZabz0123456789"


def h_line(eng, rec, focus, name_len, tail):
    """build a line per the PDB column spec from symbolic values; the real
    parser must return exactly those values"""
    from pdb2pqr import pdb

    I, F = (core.sym_int_t, core.sym_float_t) if eng.symbolic else (int, float)
    vals = dict(serial=4321, name="CA", alt="", res="LYS", chain="A", num=17, ins="", x=1.5, y=-22.25, z=333.125)
    if "serial" in focus:
        vals["serial"] = eng.int("serial", 0, 99999)
    if "num" in focus:
        vals["num"] = eng.int("num", -999, 9999)
    for k in "xyz":
        if k in focus:
            vals[k] = eng.real(k)
            eng.assume(And(vals[k] > -999.9995, vals[k] < 9999.9995))
    if eng.symbolic:
        if "name" in focus:
            vals["name"] = strs.sym_name(eng, "name", name_len, ALPHA_NAME)
        if "res" in focus:
            vals["res"] = strs.sym_name(eng, "res", 3, ALPHA_RES)
        for k in ("alt", "chain", "ins"):
            if k in focus:
                vals[k] = strs.sym_name(eng, k, 1, ALPHA_ONE)
    else:
        for key, n in (("name", name_len), ("res", 3), ("alt", 1), ("chain", 1), ("ins", 1)):
            if key in focus:
                vals[key] = "".join(chr(eng.int(f"{key}_c{k}")) for k in range(n))

    def one(s):
        return s if len(s) == 1 else " "

    nm = vals["name"]
    # PDB convention: names shorter than four characters start in column 14
    fname = nm if len(nm) == 4 else " " + (nm + "   ")[:3]
    fx = [format(vals[k], "8.3f") for k in "xyz"]
    line = strs.fstring(
        (rec + "      ")[:6], format(vals["serial"], "5d"), " ", fname, one(vals["alt"]), vals["res"], " ", one(vals["chain"]),
        format(vals["num"], "4d"), one(vals["ins"]), "   ", fx[0], fx[1], fx[2],
    )
    if tail == "full":
        line = line + "  1.00 20.00           C  "
    elif tail == "occupancy":
        line = line + "  1.00"
    klass = getattr(pdb, rec)
    sh = (builtin_shims(pdb, ("int", "float")) + [(pdb, "str", strs.sym_str_t)]) if eng.symbolic else []
    with patched(*sh):
        try:
            a = klass(line)
        except (ValueError, IndexError) as e:
            eng.check(False, "parses", note=f"{rec} parser raised {type(e).__name__}: {e} on a column-formatted line {line!r}")
            return

        def seq(x, y):
            r = (x == y) if not isinstance(y, strs.SymStr) else (y == x)
            return r

        eng.check(
            And(core.same(a.serial, vals["serial"]), seq(a.name, vals["name"]), seq(a.alt_loc, vals["alt"]), seq(a.res_name, vals["res"]), seq(a.chain_id, vals["chain"]), core.same(a.res_seq, vals["num"]), seq(a.ins_code, vals["ins"])),
            "identity-fields",
            note=f"{rec} parser: identity fields differ from the column spec for line {line!r}",
        )
        eng.check(And(*[core.close(getattr(a, k), vals[k], 0.0005 + 1e-9) for k in "xyz"]), "coordinates", note=f"{rec} parser: coordinates differ for line {line!r}")
        # the read loop dispatches the line to the same parser
        class Fh:
            def __init__(s):
                s.lines = [line + "\n", ""]

            def readline(s):
                return s.lines.pop(0) if s.lines else ""

        recs, errs = pdb.read_pdb(Fh())
        eng.check(len(recs) == 1 and type(recs[0]) is klass, "read-loop-dispatch", note=f"read_pdb returned {len(recs)} records for one {rec} line")


def obligations(tier):
    obs = []
    if tier == "quick":
        for models in ("plain", "plain-noend", "two-models", "one-model-noend"):
            for drop in (False, True):
                obs.append(Obligation(f"records-n2-{models}-drop{int(drop)}", h_records, dict(nlines=2, kinds=KIND_NAMES, models=models, drop=drop), group="records", time_cap=1500, max_paths=100000))
        for k in range(len(QUICK_KINDS)):
            obs.append(Obligation(f"records-n3-first={QUICK_KINDS[k]}", h_records, dict(nlines=3, kinds=QUICK_KINDS, models=False, drop=bool(k % 2), first=k), group="records", time_cap=1500, max_paths=100000))
    else:
        for models in ("plain", "plain-noend", "two-models", "one-model-noend"):
            for drop in (False, True):
                for k in range(len(KIND_NAMES)):
                    obs.append(Obligation(f"records-n3-{models}-drop{int(drop)}-first={KIND_NAMES[k]}", h_records, dict(nlines=3, kinds=KIND_NAMES, models=models, drop=drop, first=k), group="records", time_cap=3000, max_paths=200000))
        for k in range(len(QUICK_KINDS)):
            for drop in (False, True):
                obs.append(Obligation(f"records-n4-drop{int(drop)}-first={QUICK_KINDS[k]}", h_records, dict(nlines=4, kinds=QUICK_KINDS, models=False, drop=drop, first=k), group="records", time_cap=3000, max_paths=200000))
    foci = [["serial"], ["num", "ins"], ["num", "chain"], ["x", "y"], ["y", "z"], ["name", "alt"], ["res", "chain"]]
    for rec in ("ATOM", "HETATM"):
        for focus in foci:
            for name_len in ((1, 4) if "name" in focus else (2,)) if tier == "quick" else ((1, 2, 3, 4) if "name" in focus else (2,)):
                for tail in ("full", "cut-after-z") if tier == "quick" else ("full", "occupancy", "cut-after-z"):
                    if tier == "quick" and rec == "HETATM" and tail != "full":
                        continue
                    obs.append(Obligation(f"line-{rec}-{'+'.join(focus)}-n{name_len}-{tail}", h_line, dict(rec=rec, focus=focus, name_len=name_len, tail=tail), group="line", time_cap=1200))
    obs += _drop_name_obligations()
    obs += _model_label_obligations(tier)
    obs.append(Obligation("alternate-names-unambiguous", table_altnames, {}, kind="table", group="altnames"))
    return obs


def table_altnames():
    """the alternate spellings pdb2pqr accepts (AA.xml / NA.xml <altname>) are unambiguous for heavy atoms: within one
    residue an alternate name belongs to one atom and is not another atom's canonical name - otherwise the record of
    the second atom is renamed onto the first and silently discarded at ingestion.  Independent XML parse, then the
    real Definition is asked the same question."""
    import collections
    import os
    import xml.etree.ElementTree as ET

    from symx.run import REPO

    rows, violations = 0, []
    defn = fixtures.pristine_definition()
    for fname in ("AA.xml", "NA.xml"):
        root = ET.parse(os.path.join(REPO, "pdb2pqr", "dat", fname)).getroot()
        for res in root.iter("residue"):
            rn = res.findtext("name")
            names = [a.findtext("name") for a in res.findall("atom")]
            alts = collections.defaultdict(list)
            for a in res.findall("atom"):
                for an in a.findall("altname"):
                    alts[an.text].append(a.findtext("name"))
            for alt, owners in alts.items():
                if all(o.startswith("H") for o in owners):
                    continue
                rows += 1
                case = {"file": fname, "residue": rn, "alternate_name": alt}
                if len(set(owners)) > 1 or (alt in names and alt not in owners):
                    violations.append({"label": "alternate-name-unambiguous", "values": case, "reproduced": True, "replay_detail": f"{fname} {rn}: alternate name {alt} is declared for {sorted(set(owners))}" + (f" and is the canonical name of another atom" if alt in names and alt not in owners else "")})
                    continue
                real = defn.map.get(rn)
                if real is not None and real.altnames.get(alt) != owners[0]:
                    violations.append({"label": "alternate-name-unambiguous", "values": case, "reproduced": True, "replay_detail": f"{fname} {rn}: the definition translates {alt} to {real.altnames.get(alt)}, the file declares it for {owners[0]}"})
    return {"table_rows": rows, "distinct": rows, "violations": violations, "samples": [{"rows": rows}]}


def _model_label_obligations(tier):
    return [Obligation(f"records-n{n}-{m}-drop{int(d)}", h_records, dict(nlines=n, kinds=QUICK_KINDS, models=m, drop=d), group="records", time_cap=1500, max_paths=100000) for n in ((1,) if tier == "quick" else (1, 2)) for m in ("two-models-from-0", "two-models-same-number", "two-models-from-5", "two-models-unpadded-labels") for d in (False, True)]


def _drop_name_obligations():
    return [Obligation(f"drop-water-name-{rec}-len{n}", h_drop_name, dict(rec=rec, name_len=n), group="drop-name", time_cap=600) for rec in ("ATOM", "HETATM") for n in (1, 2, 3)]


def encoded():
    from pdb2pqr import aa
    from pdb2pqr import biomolecule as biomol
    from pdb2pqr import main, pdb, residue

    return [pdb.read_pdb, pdb.ATOM.__init__, pdb.HETATM.__init__, pdb.BaseRecord.record_type, main.drop_water, biomol.Biomolecule.__init__, biomol.Biomolecule.create_residue, aa.Amino.__init__, residue.Residue.__init__]


META = dict(
    stubs=[
        "records: none - the file text is concrete for each sequence of record kinds; the kinds are symbolic selectors concretised by forking",
        "line: pdb2pqr.pdb.int/float/str -> symx shims; the line is a layout string assembled per the PDB column specification",
    ],
    bounds=[
        "records: a fixed prefix (HEADER, two atoms) and suffix (atom, water, TER, END) around 2 (all 23 kinds) or 3 (quick: 12 kinds; thorough: all 23) or 4 (thorough, 12 kinds) symbolic lines; four file layouts (plain with END, plain without END, MODEL 1 ... ENDMDL followed by a second model, a single MODEL ... ENDMDL without END); with and without --drop-water",
        "record kinds: " + ", ".join(KIND_NAMES),
        "line: serial 0..99999, residue number -999..9999, coordinates in (-999.9995, 9999.9995), atom name 1-4 / residue name 3 / chain, altloc, insertion code 1 symbolic character; trailing columns full / cut after occupancy / cut after z",
    ],
    outside=[
        "input grammar assumed: MODEL/ENDMDL properly bracketed; the two records of an alternate-location pair adjacent",
        "a crash (exception) on a malformed sequence is a loud failure and tolerated; only silent loss / silent extras are violations",
        "the whitespace fallback read_atom for lines that are not column-formatted",
        "hybrid-36 or other non-standard serial encodings",
    ],
    assumptions=["oracle reader = PDB column specification (format v3.3 ATOM/HETATM), first model, first listed alternate location"],
    technique="symbolic execution of the real reader/constructor over symbolic record-kind selectors and layout-string lines (symx) + SMT verdict per path",
)

MANIFEST = dict(
    text="For C07: the real pdb.read_pdb + main.drop_water + Biomolecule.__init__ on every sequence (up to the bound) of 27 record kinds (incl. a damaged coordinate line) placed between a fixed prefix and suffix, with/without a second model and --drop-water, against an independent column-slicing reader (every ATOM/HETATM of model 1 present once, first alternate location, nothing from later models, waters removed iff requested, residues not merged); and the real ATOM/HETATM line parsers + read loop on a column-formatted line whose fields are all symbolic (layout strings) against the PDB column spec; the real drop_water on a record whose residue name is 1-3 symbolic characters (dropped iff the name is HOH or WAT). Round 4: MODEL records labelled 0/1, 1/1, 5/6 (the serial is a label), a blank-chain water record among the kinds. Round 5: table - every alternate heavy-atom spelling accepted by AA.xml / NA.xml belongs to one atom of its residue (independent XML parse against the real Definition).",
    note="Trusted: z3, symx layout strings. Record-kind sequences are bounded (2-4 symbolic lines); the file text for a given sequence is concrete. MODEL/ENDMDL bracketing and adjacent alternate-location pairs are assumed (documented PDB format). Exceptions on malformed sequences are tolerated as loud failures.",
    technique="symbolic execution of real code over record-kind selectors and layout strings (symx) + SMT verdict per path",
    design="DESIGN.md section 3 C07",
)
