"""C08 - the PQR file is a faithful, re-readable serialisation of the model.

Real code executed symbolically: structures.Atom.get_common_string_rep /
get_pqr_string (writer), main.print_pqr (whitespace re-spacing, ``open``
stubbed), structures.Atom.from_pqr_line and io.read_pqr (readers).  Numbers
and names are layout strings, so truncation / merging become arithmetic facts.
"""
from __future__ import annotations

import z3

from symx import core, rewrite, strs
from symx.core import And, Or
from symx.run import Obligation
from symx.shims import builtin_shims, patched

PROP = "C08"

ALPHA_NAME = "ABCDEFGHINOPSTXZ0123456789'*"
ALPHA_RES = "ABCDEGHILMNOPRSTUVWY0123456789"
ALPHA_CHAIN = "ABCXYZabz0123456789"
ALPHA_INS = "ABCDEFGHIJKLMNOPQRSTUVWXYZ"

DEFAULTS = dict(serial=1234, name="CA", res_name="ALA", chain="A", res_seq=42, ins="", x=12.345, y=-6.789, z=101.5, charge=-0.1234, radius=1.85)

TOL_XYZ = 0.0005 + 1e-9
TOL_Q = 0.00005 + 1e-9


class _File:
    def __init__(self, sink):
        self.sink = sink

    def __enter__(self):
        return self

    def __exit__(self, *a):
        return False

    def write(self, s):
        self.sink.append(s)


def _model(eng, focus, name_len, res_len, serial_max=10 ** 7 - 1):
    m = dict(DEFAULTS)
    if "serial" in focus:
        m["serial"] = eng.int("serial", 1, serial_max)
    if "res_seq" in focus:
        m["res_seq"] = eng.int("res_seq", -9999, 99999)
    for k in ("x", "y", "z"):
        if k in focus:
            m[k] = eng.real(k)
            eng.assume(And(m[k] > -100000, m[k] < 100000))
    if "charge" in focus:
        m["charge"] = eng.real("charge")
        eng.assume(And(m["charge"] > -100, m["charge"] < 100))
    if "radius" in focus:
        m["radius"] = eng.real("radius")
        eng.assume(And(m["radius"] >= 0, m["radius"] < 1000))
    if "blankchain" in focus:
        m["chain"] = ""  # waters / CHARMM-style records without a chain identifier
    if eng.symbolic:
        if "name" in focus:
            m["name"] = strs.sym_name(eng, "name", name_len, ALPHA_NAME)
        if "res_name" in focus:
            m["res_name"] = strs.sym_name(eng, "res_name", res_len, ALPHA_RES)
        if "chain" in focus:
            m["chain"] = strs.sym_name(eng, "chain", 1, ALPHA_CHAIN)
        if "ins" in focus:
            m["ins"] = strs.sym_name(eng, "ins", 1, ALPHA_INS)
    else:
        for key, n in (("name", name_len), ("res_name", res_len), ("chain", 1), ("ins", 1)):
            if key in focus:
                m[key] = "".join(chr(eng.int(f"{key}_c{k}")) for k in range(n))
    return m


def _patches(eng):
    from pdb2pqr import main, structures

    if not eng.symbolic:
        return []
    return (
        builtin_shims(structures, ("int", "float"))
        + [(structures, "str", strs.sym_str_t)]
        + rewrite.method_patches(structures.Atom, "get_common_string_rep", "get_pqr_string", "from_pqr_line")
        + rewrite.function_patches(main, "print_pqr")
    )


def _num_eq(a, b, tol=None):
    if tol is None:
        return core.same(a, b)
    return core.close(a, b, tol)


def _str_eq(a, b):
    if a is None:
        a = ""
    if b is None:
        b = ""
    r = a == b if not isinstance(b, strs.SymStr) else b == a
    return r


def _read_fixed(line, I, F):
    """Independent fixed-column reader (PDB columns + pdb2pqr's charge/radius
    columns): the oracle for the default layout."""
    return dict(
        type=line[0:6].strip(),
        serial=I(line[6:11]),
        name=line[12:16].strip(),
        res_name=line[16:20].strip(),
        chain=line[21:22].strip(),
        res_seq=I(line[22:26]),
        ins=line[26:27].strip(),
        x=F(line[30:38]),
        y=F(line[38:46]),
        z=F(line[46:54]),
        charge=F(line[54:62]),
        radius=F(line[62:69]),
    )


def _read_tokens(line, has_chain, I, F):
    """Independent whitespace reader following docs/source/formats/pqr.rst:
    Field_name Atom_number Atom_name Residue_name [Chain_ID] Residue_number X Y Z Charge Radius"""
    w = line.split()
    want = 11 if has_chain else 10
    if len(w) != want:
        raise ValueError(f"{len(w)} whitespace-separated fields, format prescribes {want}")
    k = 5 if has_chain else 4
    return dict(
        type=w[0],
        serial=I(w[1]),
        name=w[2],
        res_name=w[3],
        chain=w[4] if has_chain else "",
        res_seq=I(w[k]),
        ins="",
        x=F(w[k + 1]),
        y=F(w[k + 2]),
        z=F(w[k + 3]),
        charge=F(w[k + 4]),
        radius=F(w[k + 5]),
    )


def _compare(m, rtype, kc, got, ins_expected=True):
    """conjunction of field agreements (SymBool / bool)"""
    conds = [
        _str_eq(rtype, got["type"]),
        _num_eq(m["serial"], got["serial"]),
        _str_eq(m["name"], got["name"]),
        _str_eq(m["res_name"], got["res_name"]),
        _num_eq(m["res_seq"], got["res_seq"]),
        _num_eq(m["x"], got["x"], TOL_XYZ),
        _num_eq(m["y"], got["y"], TOL_XYZ),
        _num_eq(m["z"], got["z"], TOL_XYZ),
        _num_eq(m["charge"], got["charge"], TOL_Q),
        _num_eq(m["radius"], got["radius"], TOL_Q),
    ]
    if kc:
        conds.append(_str_eq(m["chain"], got["chain"]))
    if ins_expected:
        conds.append(_str_eq(m["ins"], got["ins"]))
    return And(*conds)


def h_roundtrip(eng, focus, rtype, ws, kc, name_len=2, res_len=3, serial_max=10 ** 7 - 1, is_cif=False):
    from pdb2pqr import io, main, structures

    m = _model(eng, focus, name_len, res_len, serial_max)
    atom = structures.Atom(type_=rtype)
    atom.serial, atom.name, atom.res_name = m["serial"], m["name"], m["res_name"]
    atom.chain_id, atom.res_seq, atom.ins_code = m["chain"], m["res_seq"], m["ins"]
    atom.x, atom.y, atom.z, atom.ffcharge, atom.radius = m["x"], m["y"], m["z"], m["charge"], m["radius"]
    atom.seg_id, atom.element, atom.occupancy, atom.temp_factor = "SOLV", "C", 1.0, 20.0  # columns of the input record that are no PQR fields

    eng.derived["has_ins"] = len(m["ins"]) > 0
    ch = m["chain"]
    eng.derived["chain_is_digit"] = (strs._to_sb(strs._cell_in(ch.cells[0], "0123456789")) if isinstance(ch, strs.SymStr) else (len(ch) == 1 and ch.isdigit()))

    class Args:
        output_pqr = "out.pqr"
        whitespace = ws

    sink = []
    I = core.sym_int_t if eng.symbolic else int
    F = core.sym_float_t if eng.symbolic else float
    with patched(*_patches(eng), (main, "open", lambda *a, **k: _File(sink))):
        try:
            line = atom.get_pqr_string(chainflag=kc) + "\n"
            main.print_pqr(Args, [line, "TER\n", "END"], "", None, is_cif)  # is_cif: the CIF-flavoured trailer drops TER records (C10)
        except (ValueError, TypeError, IndexError, OverflowError) as e:
            eng.note(f"writer raised {type(e).__name__}: loud failure, tolerated")
            eng.check(True, "writer-raises")
            return
        if strs.leaked(sink):
            raise core.Inconclusive("a C-level string routine bypassed the layout-string model in the writer")
        atom_lines = [s for s in sink if not (isinstance(s, str) and not isinstance(s, strs.SymStr) and (s.startswith("TER") or s.startswith("END") or (is_cif and s == "#\n")))]
        eng.check(len(atom_lines) == 1, "one-line-per-atom", note=f"{len(atom_lines)} atom lines written for one atom")
        if len(atom_lines) != 1:
            return
        out = atom_lines[0]
        eng.note(repr(out))
        has_chain = bool(kc) and (len(m["chain"]) > 0)
        if not ws:
            try:
                got = _read_fixed(out, I, F)
                eng.check(_compare(m, rtype, kc, got), "fixed-columns", note=f"fixed-column read-back differs from the model: line={out!r}")
            except ValueError as e:
                eng.check(False, "fixed-columns", note=f"fixed-column read-back fails: {e} line={out!r}")
        else:
            try:
                got = _read_tokens(out, has_chain, I, F)
                eng.check(_compare(m, rtype, kc, got, ins_expected=False), "whitespace-tokens", note=f"whitespace read-back differs: line={out!r}")
                # an insertion code has no field of its own in the whitespace format: if the model has one it must not be lost silently
                eng.check(len(m["ins"]) == 0, "whitespace-tokens", note="insertion code has no representation that survives whitespace tokenisation")
            except ValueError as e:
                eng.check(False, "whitespace-tokens", note=f"whitespace read-back fails: {e} line={out!r}")
            for reader in ("from_pqr_line", "read_pqr"):
                try:
                    if reader == "from_pqr_line":
                        a2 = structures.Atom.from_pqr_line(out)
                    else:
                        lst = io.read_pqr(iter(sink))
                        eng.check(len(lst) == 1, "read_pqr-count", note=f"read_pqr returned {len(lst)} atoms for 1 written")
                        if len(lst) != 1:
                            continue
                        a2 = lst[0]
                    got = dict(type=a2.type, serial=a2.serial, name=a2.name, res_name=a2.res_name, chain=a2.chain_id, res_seq=a2.res_seq, ins=a2.ins_code, x=a2.x, y=a2.y, z=a2.z, charge=a2.charge, radius=a2.radius)
                    eng.check(_compare(m, rtype, kc, got), reader, note=f"{reader} read-back differs: line={out!r} got={ {k: (v if not isinstance(v, (core.SymInt, core.SymReal)) else '<sym>') for k, v in got.items()} }")
                except (ValueError, IndexError) as e:
                    eng.check(False, reader, note=f"{reader} fails on pdb2pqr's own output: {type(e).__name__} {e} line={out!r}")


def h_atom_list(eng, n, ws, kc):
    """io.print_biomolecule_atoms + print_pqr on a list of atoms whose chain ids are symbolic:
    one line per atom in list order, serial = position, a TER between chain changes (dropped
    again by --whitespace), read_pqr returns as many atoms as were written"""
    from pdb2pqr import io, main, structures

    atoms = []
    for k in range(n):
        a = structures.Atom(type_="ATOM" if k % 2 == 0 else "HETATM")
        a.name, a.res_name, a.res_seq, a.ins_code = f"C{k}", "LIG", 5 + k, ""
        if eng.symbolic:
            a.chain_id = strs.sym_name(eng, f"chain{k}", 1, "ABC")
        else:
            a.chain_id = chr(eng.int(f"chain{k}_c0"))
        a.x, a.y, a.z, a.ffcharge, a.radius = 1.0 + k, 2.0, 3.0, 0.25, 1.5
        atoms.append(a)

    class Args:
        output_pqr = "out.pqr"
        whitespace = ws

    sink = []
    with patched(*_patches(eng), *(rewrite.function_patches(io, "print_biomolecule_atoms") if eng.symbolic else []), (main, "open", lambda *a, **k: _File(sink))):
        lines = io.print_biomolecule_atoms(atoms, kc)
        main.print_pqr(Args, lines, "", None, False)
        if strs.leaked(sink) or strs.leaked(lines):
            raise core.Inconclusive("layout-string model bypassed")
        atom_lines = [ln for ln in lines if not (isinstance(ln, str) and not isinstance(ln, strs.SymStr) and ln.startswith(("TER", "END")))]
        ters = [ln for ln in lines if isinstance(ln, str) and not isinstance(ln, strs.SymStr) and ln.startswith("TER") and not ln.startswith("TER\nEND")]
        eng.check(len(atom_lines) == n, "one-line-per-atom", note=f"{len(atom_lines)} lines for {n} atoms")
        changes = 0
        for k in range(1, n):
            same = atoms[k].chain_id == atoms[k - 1].chain_id
            if not bool(same):  # forks on the symbolic chain characters
                changes += 1
        eng.check(len(ters) == changes, "ter-between-chains", note=f"{len(ters)} TER records for {changes} chain changes")
        for k, a in enumerate(atoms):
            eng.check(a.serial == k + 1, "serial-is-position")
        written = [s_ for s_ in sink if not (isinstance(s_, str) and not isinstance(s_, strs.SymStr) and s_.startswith(("TER", "END")))]
        eng.check(len(written) == n, "all-atoms-written", note=f"{len(written)} atom lines written for {n} atoms")
        names = []
        for s_ in written:
            w = s_.split()
            names.append(str(w[2]))
        eng.check(names == [a.name for a in atoms], "list-order-kept", note=f"written order {names}")
        if ws:
            got = io.read_pqr(iter(sink))
            eng.check(len(got) == n, "read_pqr-count", note=f"read_pqr returned {len(got)} atoms for {n} written")


FOCI_QUICK = [
    ("serial",),
    ("res_seq",),
    ("res_seq", "chain"),
    ("res_seq", "ins"),
    ("x", "y"),
    ("z", "charge"),
    ("charge", "radius"),
    ("name", "res_name"),
    ("blankchain", "res_seq"),
]
FOCI_THOROUGH = FOCI_QUICK + [("serial", "name"), ("res_seq", "x"), ("y", "z"), ("ins", "x"), ("chain",), ("radius",), ("res_name", "chain", "res_seq")]


def h_atom_list_twins(eng, n, kc):
    """io.print_biomolecule_atoms on atoms whose chain id and insertion code are selectors (concrete per path, so that a
    writer that sorts, groups or de-duplicates by a key runs natively): consecutive residues may share chain, number and
    residue name and differ in the insertion code only; chains need not come in alphabetical order.  One line per atom, in
    list order, serial = position."""
    from pdb2pqr import io, structures

    atoms = []
    for k in range(n):
        a = structures.Atom(type_="ATOM")
        a.name, a.res_name, a.res_seq = "CA", "SER", 20
        a.chain_id = "BA"[eng.choice(f"chain{k}", 2)]
        a.ins_code = ["", "A", "B"][eng.choice(f"ins{k}", 3)]
        a.x, a.y, a.z, a.ffcharge, a.radius = 1.0 + 3.0 * k, 2.0, 3.0, 0.25, 1.5
        a.seg_id, a.element, a.occupancy, a.temp_factor, a.alt_loc, a.charge = "", "C", 1.0, 20.0, "", ""
        atoms.append(a)
    # a model holds each (chain, number, insertion code) once
    ids = [(a.chain_id, a.ins_code) for a in atoms]
    if len(set(ids)) < len(ids):
        eng.check(True, "not-a-model")
        return
    lines = io.print_biomolecule_atoms(atoms, kc)
    body = [ln for ln in lines if ln.startswith(("ATOM", "HETATM"))]
    eng.check(len(body) == n, "one-line-per-atom", note=f"{len(body)} atom lines for {n} atoms with (chain, insertion code) {ids}")
    xs = [float(ln[30:38]) for ln in body]
    eng.check(xs == [a.x for a in atoms][: len(xs)] and len(xs) == n, "list-order-kept", note=f"atoms with (chain, insertion code) {ids} are written in the order x = {xs} (--keep-chain {kc})")
    eng.check([a.serial for a in atoms] == list(range(1, n + 1)), "serial-is-position", note=f"serials {[a.serial for a in atoms]}")


def h_chain_flow(eng, ff, pka, ligand):
    """whatever path the real driver takes (--clean, --assign-only, force-field run, ...), the chain column of the
    PQR lines follows --keep-chain: every call that renders PQR atom lines receives chainflag == args.keep_chain"""
    from . import flow

    o = flow.symbolic_options(eng, fixed=dict(ff=ff, pka=pka, ligand=ligand), formatting=dict(ffout=0, pdb_output=0, apbs_input=0))
    eng.assume(And(o["ph"] >= 0, o["ph"] <= 14))
    w = flow.World(eng, "1", False, {}, [])
    err = flow.run_driver(w, o)
    if err is not None:
        eng.check(True, "loud-failure-tolerated", note=type(err).__name__)
        return
    calls = [(name, a) for name, a, k in w.raw if name == "atom.get_pqr_string" or (name == "io.print_biomolecule_atoms" and not a[2])]
    eng.check(len(calls) > 0, "pqr-lines-rendered")
    for name, a in calls:
        flag = a[1]
        eng.check(core.Iff(flag, o["keep_chain"]), "chain-column-follows-keep-chain", note=f"{name} called with chainflag={flag} while --keep-chain is {o['keep_chain']} (options: clean={o['clean']}, assign_only={o['assign_only']})")


def h_layout_flow(eng, ff):
    """whatever other options are given (--apbs-input, --pdb-output, --ffout, --include-header, ...), the layout of the PQR
    file follows --whitespace and nothing else: the real print_pqr is called with args.whitespace as requested (round 7:
    --apbs-input switched the whitespace layout on, so the default-layout file could not be read by its columns)"""
    from pdb2pqr import main

    from . import flow

    o = flow.symbolic_options(eng, fixed=dict(ff=ff, pka=0, ligand=0))
    eng.assume(And(o["ph"] >= 0, o["ph"] <= 14))
    asked = o["whitespace"]
    w = flow.World(eng, "1", False, {}, [])
    seen = []
    real = main.print_pqr

    def spy(args, *a, **k):
        seen.append(args.whitespace)
        return real(args, *a, **k)

    with patched((main, "print_pqr", spy)):
        err = flow.run_driver(w, o)
    if err is not None:
        eng.check(True, "loud-failure-tolerated", note=type(err).__name__)
        return
    eng.check(len(seen) == 1, "pqr-written-once", note=f"print_pqr called {len(seen)} times")
    for flag in seen:
        eng.check(core.Iff(flag, asked), "layout-follows-whitespace-option", note=f"print_pqr ran with whitespace={flag} while --whitespace is {asked} (apbs_input={o['apbs_input']}, pdb_output={o['pdb_output']}, ffout={o['ffout']})")


def obligations(tier):
    obs = []
    foci = FOCI_QUICK if tier == "quick" else FOCI_THOROUGH
    for focus in foci:
        for ws in (False, True):
            for kc in (False, True):
                if "chain" in focus and not kc and tier == "quick":
                    continue
                for rtype in ("ATOM", "HETATM") if ("serial" in focus or tier == "thorough") else ("ATOM",):
                    lens = [(2, 3)]
                    if "name" in focus or "res_name" in focus:
                        lens = [(1, 1), (3, 3), (4, 3), (3, 4), (4, 4)] if tier == "quick" else [(a, b) for a in (1, 2, 3, 4) for b in (1, 2, 3, 4)]
                    for nl, rl in lens:
                        tag = f"{'+'.join(focus)}-{rtype}-{'ws' if ws else 'fixed'}-{'kc' if kc else 'nokc'}-n{nl}r{rl}"
                        obs.append(Obligation(f"roundtrip-{tag}", h_roundtrip, dict(focus=list(focus), rtype=rtype, ws=ws, kc=kc, name_len=nl, res_len=rl), group="roundtrip", time_cap=1500, max_paths=100000))
    for n in (2, 3):
        for ws in (False, True):
            for kc in (False, True):
                obs.append(Obligation(f"atom-list-n{n}-{'ws' if ws else 'fixed'}-{'kc' if kc else 'nokc'}", h_atom_list, dict(n=n, ws=ws, kc=kc), group="atom-list", time_cap=1200))
    # the CIF-flavoured output (TER records dropped, a closing '#' line) reads back like the plain one (found+fixed C08-F10)
    for ws in (False, True):
        obs.append(Obligation(f"roundtrip-cif-output-{'ws' if ws else 'fixed'}", h_roundtrip, dict(focus=["res_seq", "x"], rtype="HETATM", ws=ws, kc=True, is_cif=True), group="roundtrip", time_cap=1500, max_paths=100000))
    for kc in (False, True):
        obs.append(Obligation(f"atom-list-twins-n3-{'kc' if kc else 'nokc'}", h_atom_list_twins, dict(n=3, kc=kc), group="atom-list", time_cap=1200, max_paths=100000))
    for ff, pka, lig in ((0, 0, 0),) if tier == "quick" else ((0, 0, 0), (1, 1, 0), (2, 0, 1)):
        obs.append(Obligation(f"chain-flow-ff{ff}-pka{pka}-lig{lig}", h_chain_flow, dict(ff=ff, pka=pka, ligand=lig), group="flow", time_cap=1500, max_paths=200000))
    for ff in (0, 1):
        obs.append(Obligation(f"layout-flow-ff{ff}", h_layout_flow, dict(ff=ff), group="flow", time_cap=1500, max_paths=200000))
    return obs


def encoded():
    from pdb2pqr import io, main, structures

    return [structures.Atom.get_common_string_rep, structures.Atom.get_pqr_string, structures.Atom.from_pqr_line.__func__, main.print_pqr, io.read_pqr, io.print_biomolecule_atoms]


META = dict(
    stubs=[
        "pdb2pqr.structures.int/float/str -> symx shims (layout-string parsing / unbound str.ljust/rjust)",
        "Atom.get_common_string_rep, get_pqr_string, from_pqr_line and main.print_pqr recompiled at check time from their current source with f-strings routed through the layout-string model (symx.rewrite; mechanical AST rewrite, nothing else changes)",
        "pdb2pqr.main.open -> capture of written strings",
        "floats are exact reals; f/.Nf rendering = round-half-even of the decimal value (differs from the binary double only on exact decimal ties, where either neighbour satisfies the property's tolerance)",
    ],
    bounds=[
        "serial in [1, 10^7); res_seq in (-10^4, 10^5); x,y,z in (-10^5, 10^5); charge in (-100, 100); radius in [0, 1000)",
        "atom name 1-4 symbolic characters over '" + ALPHA_NAME + "'; residue name 1-4 over '" + ALPHA_RES + "'; chain 1 character over '" + ALPHA_CHAIN + "'; insertion code 1 character A-Z",
        "fields made symbolic one group at a time (neighbouring fields pairwise, the only way fields interact is adjacency); other fields at fixed in-range defaults",
        "record type ATOM/HETATM, --whitespace on/off, --keep-chain on/off enumerated",
    ],
    outside=[
        "names longer than 4 characters; characters outside the stated alphabets; blank chain with --keep-chain; non-finite numbers",
        "the header / REMARK lines (print_pqr drops them)",
        "serial numbers above the atom count (print_biomolecule_atoms renumbers: serial = position in the list; checked on 2-3 atom lists with symbolic chain ids)",
    ],
    assumptions=[
        "default layout is read back by the fixed PDB columns plus pdb2pqr's charge [55-62] and radius [63-69] columns; whitespace layout by the token order of docs/source/formats/pqr.rst and by pdb2pqr's own readers",
        "tolerances: coordinates 0.0005 A, charge and radius 0.00005 (half a unit of the last printed place) + 1e-9",
    ],
    technique="symbolic execution of the real writer/re-spacer/readers on layout strings (symx) + SMT verdict per path; known-finding regions excluded and re-confirmed by the solver",
)

MANIFEST = dict(
    text='For C08: the real writer (Atom.get_common_string_rep/get_pqr_string), the real whitespace re-spacer (main.print_pqr) and the real readers (Atom.from_pqr_line, io.read_pqr) plus two independent oracle readers (fixed columns; documented whitespace token order) on layout strings: serial, residue number, coordinates, charge, radius are symbolic numbers over the stated ranges, names/chain/insertion code symbolic characters; every truncation or field merge is an arithmetic fact the solver finds. Nine overflow/merge regions of the pinned tree are known findings (known_findings.json); the check proves there is no violation outside them and re-confirms each by a solver witness replayed on the real code. Round 4: on every path of the real driver (clean, assign-only, force-field run; symbolic options) every call that renders PQR atom lines receives chainflag equal to --keep-chain.',
    note='Trusted: z3, symx layout-string model (number rendering = round-half-even on exact decimals, validated against CPython on each run), AST rewrite of f-strings in the four encoded functions. Fields are symbolic in neighbouring groups, the rest fixed in-range defaults. A defect confined to a known-finding region is masked by it.',
    technique='symbolic execution of real code on layout strings (symx) + SMT verdict per path, known-finding regions handled by the solver',
    design='DESIGN.md section 3 C08',
)
