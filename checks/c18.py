"""C18 - DX to cube conversion preserves the grid data.

Real code executed symbolically: io.read_dx on DX text whose numbers are
layout strings / opaque numeric tokens, then io.write_cube (f-strings and
str.join routed through the layout-string model); the cube text is parsed back
by an independent tokeniser.
"""
from __future__ import annotations

from symx import core, rewrite, strs
from symx.core import And
from symx.run import Obligation
from symx.shims import builtin_shims, patched

PROP = "C18"


class _Sink:
    def __init__(self):
        self.parts = []

    def write(self, s):
        self.parts.append(s)


def _tok(eng, name):
    """a numeric token of the DX file standing for an arbitrary real"""
    v = eng.real(name)
    return v, (strs.SymStr([strs.T(v, "dx")]) if eng.symbolic else repr(v))


def _convert(eng, n, vpl, focus, natoms, comments, tag="", counts0=(3, 4, 5)):
    from pdb2pqr import io, structures

    I, F = (core.sym_int_t, core.sym_float_t) if eng.symbolic else (int, float)
    counts = list(counts0)
    origin = [-12.5, 0.25, 7.0]
    delta = [[0.5, 0.125, -0.25], [0.0625, 0.75, 0.375], [-0.5, 0.1875, 1.0]]  # deliberately not symmetric
    if "counts" in focus:
        counts = [eng.int(f"n{k}", 1, 9999) for k in "xyz"]
    if "origin" in focus:
        origin = [eng.real("ox"), eng.real("oy"), -3.5]
        eng.assume(And(*[And(o > -9999, o < 9999) for o in origin[:2]]))
    if "delta" in focus:
        delta[0][1] = eng.real("d01")
        delta[2][0] = eng.real("d20")
        eng.assume(And(delta[0][1] > -99, delta[0][1] < 99, delta[2][0] > -99, delta[2][0] < 99))

    def num(v, spec="d"):
        return format(v, spec) if not isinstance(v, float) else repr(v)

    lines = []
    if comments:
        lines += ["# Data from APBS\n", "#\n", "# POTENTIAL (kT/e)\n"]
    lines.append(strs.fstring("object 1 class gridpositions counts ", num(counts[0]), " ", num(counts[1]), " ", num(counts[2]), "\n"))
    lines.append(strs.fstring("origin ", *[p for o in origin for p in (format(o, ".6f") if core.is_sym(o) else repr(o), " ")], "\n"))
    for row in delta:
        lines.append(strs.fstring("delta ", *[p for d in row for p in (format(d, ".6f") if core.is_sym(d) else repr(d), " ")], "\n"))
    lines.append(strs.fstring("object 2 class gridconnections counts ", num(counts[0]), " ", num(counts[1]), " ", num(counts[2]), "\n"))
    lines.append(f"object 3 class array type double rank 0 items {n} data follows\n")
    vals = []
    row = []
    for i in range(n):
        v, t = _tok(eng, f"{tag}v{i}")
        vals.append(v)
        row.append(t)
        if len(row) == vpl or i == n - 1:
            lines.append(strs.join(" ", row) + "\n")
            row = []
    lines += ['attribute "dep" string "positions"\n', 'object "regular positions regular connections" class field\n', 'component "positions" value 1\n']
    atoms = []
    for k in range(natoms):
        a = structures.Atom()
        a.serial, a.charge, a.x, a.y, a.z = k + 1, 0.25 * k - 0.5, 1.0 + k, -2.0, 3.5
        atoms.append(a)
    sink = _Sink()
    sym = (builtin_shims(io, ("int", "float")) + [(io, "str", strs.sym_str_t)] + rewrite.function_patches(io, "write_cube")) if eng.symbolic else []
    if eng.symbolic:
        from symx import shims as _shims

        # helpers that write_cube may call (defined in io) see the same models; a math module, if io uses one, is shimmed
        sym += [(io, name, rewrite.rewritten(f)) for name, f in vars(io).items() if name.startswith("_") and callable(f) and getattr(f, "__module__", "") == io.__name__ and not isinstance(f, type)]
        if hasattr(io, "math"):
            sym.append((io, "math", _shims.MATH))
    with patched(*sym):
        d = io.read_dx(iter(lines))
        io.write_cube(sink, d, atoms)
    if strs.leaked(sink.parts):
        raise core.Inconclusive("layout-string model bypassed in write_cube")
    text = strs.join("", sink.parts) if any(isinstance(p, strs.SymStr) for p in sink.parts) else "".join(sink.parts)
    out = text.split("\n")
    eng.check(len(out) >= 6 + natoms, tag + "header-present", note=f"cube has only {len(out)} lines")
    if len(out) < 6 + natoms:
        return
    h = out[2].split()
    eng.check(len(h) == 4 and core.same(I(h[0]), natoms), tag + "atom-count", note=f"third line: {out[2]!r}")
    if len(h) == 4:
        eng.check(And(*[core.close(F(h[1 + k]), origin[k], 5e-7 + 1e-12) for k in range(3)]), tag + "origin", note=f"origin not preserved: {out[2]!r}")
    for k in range(3):
        w = out[3 + k].split()
        eng.check(len(w) == 4, tag + "axis-line", note=f"axis line malformed: {out[3 + k]!r}")
        if len(w) != 4:
            continue
        eng.check(core.same(I(w[0]), -counts[k]), tag + f"count-{k}", note=f"axis {k}: signed count is not -n (cube convention for Angstrom units): {out[3 + k]!r}")
        eng.check(And(*[core.close(F(w[1 + j]), delta[k][j], 5e-7 + 1e-12) for j in range(3)]), tag + f"spacing-{k}", note=f"axis {k}: step vector differs from the DX delta line {k}: {out[3 + k]!r}")
    for k in range(natoms):
        w = out[6 + k].split()
        eng.check(len(w) == 5 and core.same(I(w[0]), k + 1), tag + "atom-line", note=f"atom line {k}: {out[6 + k]!r}")
    body = out[6 + natoms :]
    toks = []
    per_line_ok = True
    for ln in body:
        w = ln.split()
        if len(w) > 6:
            per_line_ok = False
        toks += w
    eng.check(per_line_ok, tag + "six-per-line", note="more than six values on one cube line")
    eng.check(len(toks) == n, tag + "value-count", note=f"cube holds {len(toks)} values, the DX file {n}")
    if len(toks) == n:
        import math

        same_val = (lambda t, v: core.same(F(t), v)) if eng.symbolic else (lambda t, v: math.isclose(float(t), v, rel_tol=1e-5, abs_tol=1e-300))
        eng.check(And(*[same_val(t, v) for t, v in zip(toks, vals)]) if n else True, tag + "values-in-order", note="cube values differ from the DX values / order")


def h_convert(eng, n, vpl, focus, natoms, comments):
    _convert(eng, n, vpl, focus, natoms, comments)


def h_two_conversions(eng, n1, n2):
    """two different grids converted one after the other in one process: the second cube is the second grid
    (nothing of the first conversion survives in the reader / writer)"""
    _convert(eng, n1, 3, [], 1, True, tag="first-")
    _convert(eng, n2, 2, [], 2, False, tag="second-", counts0=(2, 7, 1))


PQR_KINDS = [
    ("ATOM", lambda i: f"ATOM  {100 + i:5d}  CA  ALA A{10 + i:4d}    {1.0 + i:8.3f}{2.0:8.3f}{3.0:8.3f} {0.25:7.4f} {1.8:6.4f}\n"),
    ("HETATM", lambda i: f"HETATM{100 + i:5d}  C1  LIG B{10 + i:4d}    {1.0 + i:8.3f}{-2.0:8.3f}{3.5:8.3f} {-0.5:7.4f} {1.9:6.4f}\n"),
    ("TER", lambda i: "TER\n"),
    ("END", lambda i: "END\n"),
    ("REMARK", lambda i: "REMARK   1 PQR file generated by PDB2PQR\n"),
]  # a blank line makes Atom.from_pqr_line raise IndexError (loud): outside


def h_entry(eng):
    """the dx2cube entry point (main.dx_to_cube on real files): the conversion does not depend on whether the files
    start with comment / REMARK lines or directly with data, and non-finite values (inf, nan as C prints them) pass
    through wherever they stand on a DX line (selectors; concrete files)"""
    import os
    import shutil
    import sys
    import tempfile

    from pdb2pqr import main

    pqr_header = eng.flag("pqr_starts_with_remark")
    dx_header = eng.flag("dx_starts_with_comment")
    special = [None, "inf", "nan", "-inf", "infinity", "3.000000e+39", "-7.000000e+45", "1.000000e-42", "6.250000e-120", "4.500000e+120"][eng.choice("non_finite_value", 10)]  # also finite values beyond the single-precision range
    level = ["ERROR", "INFO", "DEBUG"][eng.choice("log_level", 3)]
    where = eng.choice("its_position", 7)
    atoms = [PQR_KINDS[0][1](1), PQR_KINDS[1][1](2), PQR_KINDS[0][1](3)]
    pqr = (["REMARK   1 PQR file generated by PDB2PQR\n"] if pqr_header else []) + atoms + ["TER\n", "END\n"]
    vals = [f"{v:.6e}" for v in (0.75, -1.25, 3.5, 0.0, -0.25, 2.0, 1.5)]  # not in ascending order
    if special:
        vals[where] = special
    dx = (["# Data from APBS\n"] if dx_header else []) + ["object 1 class gridpositions counts 1 1 7\n", "origin 0.0 0.0 0.0\n", "delta 1.0 0.0 0.0\n", "delta 0.0 1.0 0.0\n", "delta 0.0 0.0 1.0\n", "object 2 class gridconnections counts 1 1 7\n", "object 3 class array type double rank 0 items 7 data follows\n"]
    dx += [" ".join(vals[i : i + 3]) + "\n" for i in range(0, 7, 3)] + ['attribute "dep" string "positions"\n']
    tmp = tempfile.mkdtemp(prefix="c18-")
    argv = sys.argv
    try:
        names = [os.path.join(tmp, n) for n in ("in.dx", "in.pqr", "out.cube")]
        open(names[0], "w").writelines(dx)
        open(names[1], "w").writelines(pqr)
        sys.argv = ["dx2cube", "--log-level", level, *names]
        import logging as _logging

        lg = _logging.getLogger()  # basicConfig(level=...) sets the ROOT level; main's logger is "PDB2PQR<version>", io's "pdb2pqr.io"
        old_level = lg.level
        try:
            # logging.basicConfig is kept from reconfiguring the checker's root logger; the requested level is set on the
            # root logger (level only, no handler), so that code guarded by isEnabledFor() runs as it would from the command line
            with patched((main.logging, "basicConfig", lambda *a, **k: None)):
                lg.setLevel(getattr(_logging, level))
                try:
                    main.dx_to_cube()
                finally:
                    lg.setLevel(old_level)
        except (ValueError, TypeError, IndexError) as e:
            eng.check(False, "conversion-runs", note=f"dx2cube raised {type(e).__name__}: {str(e)[:80]} (pqr header {pqr_header}, dx header {dx_header}, value {special} at {where}, log level {level})")
            return
        out = open(names[2]).read().split("\n")
    finally:
        sys.argv = argv
        shutil.rmtree(tmp, ignore_errors=True)
    head = out[2].split()
    eng.check(len(head) == 4 and int(head[0]) == 3, "atom-count", note=f"cube header announces {head[0] if head else '?'} atoms, the PQR file has 3 (PQR starts with a REMARK line: {pqr_header})")
    toks = [t for ln in out[6 + 3 :] for t in ln.split()]
    eng.check(len(toks) == 7, "value-count", note=f"cube holds {len(toks)} values, the DX file 7 (value {special} at position {where}, DX starts with a comment: {dx_header})")
    if len(toks) == 7:
        ok = all((t.lower().lstrip("+").startswith(v[:3].lower()) if v.lstrip("-")[:3] in ("inf", "nan") else abs(float(t) - float(v)) <= 1e-5 * abs(float(v)) + 1e-300) for t, v in zip(toks, vals))
        eng.check(ok, "values-in-order", note=f"cube values {toks} for DX values {vals} (log level {level})")


def h_written_atoms(eng, ws, kc):
    """the PQR file pdb2pqr itself writes (real Atom.get_pqr_string + print_pqr, default and --whitespace layout, with and
    without chain column) -> real read_pqr -> real write_cube, with the serial and the residue number symbolic (negative
    numbers included, within the field widths): the atom is listed, once (round 6: a reader that does not take "-2" for a
    residue number dropped the atom silently)"""
    from pdb2pqr import io, main, structures

    from . import c08

    atom = structures.Atom(type_="ATOM" if eng.flag("atom_record") else "HETATM")
    m = dict(c08.DEFAULTS)
    m["serial"] = eng.int("serial", 1, 99999)
    m["res_seq"] = eng.int("res_seq", -999 if not kc else -99, 9999 if not kc else 999)
    atom.serial, atom.name, atom.res_name = m["serial"], m["name"], m["res_name"]
    atom.chain_id, atom.res_seq, atom.ins_code = m["chain"], m["res_seq"], m["ins"]
    atom.x, atom.y, atom.z, atom.ffcharge, atom.radius = m["x"], m["y"], m["z"], m["charge"], m["radius"]

    class Args:
        output_pqr = "out.pqr"
        whitespace = ws

    sink = []
    with patched(*c08._patches(eng), *(builtin_shims(io, ("int", "float")) if eng.symbolic else []), (main, "open", lambda *a, **k: c08._File(sink))):
        line = atom.get_pqr_string(chainflag=kc) + "\n"
        main.print_pqr(Args, ["REMARK   1 PQR file generated by PDB2PQR\n", line, "TER\n", "END"], "", None, False)
        if strs.leaked(sink):
            raise core.Inconclusive("a C-level string routine bypassed the layout-string model in the writer")
        try:
            atoms = io.read_pqr(iter(sink))
        except (ValueError, IndexError) as e:
            eng.check(False, "own-output-readable", note=f"read_pqr fails on pdb2pqr's own output: {type(e).__name__} {str(e)[:60]} (whitespace {ws}, chain column {kc})")
            return
        eng.check(len(atoms) == 1, "written-atom-read-back", note=f"read_pqr returned {len(atoms)} atoms for the one written (whitespace {ws}, chain column {kc})")
        if len(atoms) != 1:
            return
        eng.check(And(atoms[0].res_seq == m["res_seq"], atoms[0].serial == m["serial"]), "written-atom-numbers", note=f"serial / residue number read back differ from those written (whitespace {ws}, chain column {kc})")
    dx = ["object 1 class gridpositions counts 1 1 2\n", "origin 0.0 0.0 0.0\n", "delta 1.0 0.0 0.0\n", "delta 0.0 1.0 0.0\n", "delta 0.0 0.0 1.0\n", "object 2 class gridconnections counts 1 1 2\n", "object 3 class array type double rank 0 items 2 data follows\n", "1.5 2.5\n", 'attribute "dep" string "positions"\n']
    out_sink = _Sink()
    with patched(*(rewrite.function_patches(io, "write_cube") if eng.symbolic else [])):
        io.write_cube(out_sink, io.read_dx(iter(dx)), atoms)
    out = "".join(str(p) for p in out_sink.parts).split("\n")
    head = out[2].split()
    eng.check(len(head) == 4 and int(head[0]) == 1, "atom-count", note=f"cube header announces {head[0] if head else '?'} atoms for one PQR atom")


def h_atoms(eng, nlines):
    """read_pqr -> write_cube: every ATOM / HETATM line of the PQR file, wherever it stands (after TER / END /
    REMARK / blank lines, e.g. concatenated files), is listed exactly once, in order"""
    from pdb2pqr import io

    kinds = [eng.choice(f"line{i}", len(PQR_KINDS)) for i in range(nlines)]
    lines = [PQR_KINDS[0][1](90)] + [PQR_KINDS[k][1](i) for i, k in enumerate(kinds)] + [PQR_KINDS[1][1](95), "END\n"]
    want = [int(ln[6:11]) for ln in lines if ln.startswith(("ATOM", "HETATM"))]
    eng.note(" ".join(PQR_KINDS[k][0] for k in kinds))
    atoms = io.read_pqr(iter(lines))
    dx = ["object 1 class gridpositions counts 1 1 2\n", "origin 0.0 0.0 0.0\n", "delta 1.0 0.0 0.0\n", "delta 0.0 1.0 0.0\n", "delta 0.0 0.0 1.0\n", "object 2 class gridconnections counts 1 1 2\n", "object 3 class array type double rank 0 items 2 data follows\n", "1.5 2.5\n", 'attribute "dep" string "positions"\n']
    sink = _Sink()
    io.write_cube(sink, io.read_dx(iter(dx)), atoms)
    out = "".join(sink.parts).split("\n")
    head = out[2].split()
    eng.check(len(head) == 4 and int(head[0]) == len(want), "atom-count", note=f"cube header announces {head[0] if head else '?'} atoms, the PQR file has {len(want)} ATOM/HETATM lines ({[PQR_KINDS[k][0] for k in kinds]})")
    got = []
    for ln in out[6 : 6 + len(want)]:
        w = ln.split()
        if len(w) == 5:
            got.append(int(w[0]))
    eng.check(got == want, "every-atom-listed-once-in-order", note=f"cube lists atoms {got}, the PQR file has {want}")


def obligations(tier):
    obs = []
    ns = [0, 1, 5, 6, 7, 12, 13] if tier == "quick" else list(range(0, 20)) + [23, 24, 25, 36, 60, 64]
    for n in ns:
        for vpl in (3,) if tier == "quick" and n not in (7, 13) else (1, 2, 3):
            obs.append(Obligation(f"convert-n{n}-vpl{vpl}-values", h_convert, dict(n=n, vpl=vpl, focus=[], natoms=n % 3, comments=bool(n % 2)), group="convert", time_cap=1200))
    for focus in (["counts"], ["origin"], ["delta"]):
        for natoms in (0, 2):
            obs.append(Obligation(f"convert-header-{focus[0]}-atoms{natoms}", h_convert, dict(n=7, vpl=3, focus=focus, natoms=natoms, comments=True), group="convert", time_cap=1500))
    obs.append(Obligation("pqr-atoms-n3" if tier == "quick" else "pqr-atoms-n4", h_atoms, dict(nlines=3 if tier == "quick" else 4), group="atoms", time_cap=1200, max_paths=20000))
    for ws in (False, True):
        for kc in (False, True):
            obs.append(Obligation(f"written-atoms-{'ws' if ws else 'fixed'}-{'kc' if kc else 'nokc'}", h_written_atoms, dict(ws=ws, kc=kc), group="atoms", time_cap=1200, max_paths=20000))
    obs.append(Obligation("entry-point-real-files", h_entry, {}, group="entry", time_cap=1200))
    for n1, n2 in ((5, 7),) if tier == "quick" else ((5, 7), (7, 5), (0, 6), (6, 0), (13, 13)):
        obs.append(Obligation(f"two-conversions-n{n1}-then-n{n2}", h_two_conversions, dict(n1=n1, n2=n2), group="two-conversions", time_cap=1200))
    return obs


def encoded():
    from pdb2pqr import io

    return [io.read_dx, io.write_cube]


META = dict(
    stubs=[
        "pdb2pqr.io.int/float/str -> symx shims; io.write_cube recompiled at check time with f-strings and str.join routed through the layout-string model",
        "DX values are opaque numeric tokens standing for arbitrary reals (float() returns the value, '< 13.5E' formatting returns a token carrying it, preceded by a sign-slot blank iff the value is non-negative and followed by a padding blank iff the exponent has two digits - optional-blank cells, validated against CPython each run): the decimal conversion itself is trusted to CPython",
    ],
    bounds=[
        "value count n: quick {0,1,5,6,7,12,13}; thorough 0..19, 23, 24, 25, 36, 60, 64; values per DX line 1-3 with a ragged last line; all values symbolic reals",
        "header: grid counts symbolic in [1,9999] (independent of n), or two origin components symbolic in (-9999,9999), or two off-diagonal delta entries symbolic in (-99,99); 0-2 atoms; with and without comment lines",
        "two conversions (5 then 7 values; thorough five pairs) in one process; read_pqr -> write_cube over every sequence of 3 (thorough 4) PQR line kinds from {ATOM, HETATM, TER, END, REMARK} between a leading ATOM and a trailing HETATM",
    ],
    outside=[
        "printed precision of '13.5E' / '11.6f' beyond the stated tolerances (CPython's formatter)",
        "consistency of the DX header with its own value count; DX dialects other than the APBS layout (read_dx documents this)",
        "blank lines inside the DX file (read_dx raises IndexError: loud); blank lines inside the PQR file (Atom.from_pqr_line raises IndexError: loud)",
    ],
    assumptions=["cube conventions: third line = atom count + origin, next three lines = signed count + step vector per axis (negative count: Angstrom units), one line per atom, then values x-outer/z-inner, at most six per line"],
    technique="symbolic execution of the real read_dx/write_cube on layout strings and numeric tokens (symx) + SMT verdict per path",
)

MANIFEST = dict(
    text="For C18: the real io.read_dx then io.write_cube on DX text whose values are arbitrary symbolic reals (numeric tokens), whose grid counts, origin components and off-diagonal delta entries are symbolic numbers (layout strings), for every value count in the stated list with 1-3 values per DX line: the cube text, parsed back by an independent tokeniser, has the atom count and origin, the signed counts and the step vectors of the DX delta lines in order, one line per atom, exactly n values equal to the DX values in the same order (whatever their magnitude: the separation of the fields does not rely on padding), at most six per line; a second conversion in the same process is unaffected by the first; every ATOM/HETATM line of the PQR file is listed once, in order. Round 4: helper functions write_cube calls inside pdb2pqr.io are recompiled the same way and a math module used there is shimmed (isclose, copysign, fmod on exact reals). Round 5: the dx2cube entry point on real files with and without leading comment / REMARK lines, inf / nan values anywhere on a DX line.",
    note="Trusted: z3, symx layout strings/numeric tokens, AST rewrite of write_cube's f-strings and join. Value counts are an explicit list (loops over a symbolic count are not unrolled); the decimal rendering of each value is CPython's.",
    technique="symbolic execution of real code on layout strings and numeric tokens (symx) + SMT verdict per path",
    design="DESIGN.md section 3 C18",
)
