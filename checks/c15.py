"""C15 - rigid-body fitting reproduces exact placements.

The real quatfit / utilities functions are run on proxies (exact reals) and the
resulting terms are handed to the solver as polynomial lemmas (two z3 builds):
q2mat is a proper rotation; the 4x4 matrix of qtrfit is the right one (Horn
identity, ties cmat, q2mat and rotmol conventions together); find_coordinates
places the atom at refcenter + R(q)(atom - defcenter) and is equivariant;
qchichange is the right-handed Rodrigues rotation; rotating atom 4 by delta
turns the measured torsion (cos, sin) by exactly delta; jacobi's final ordering
puts the largest eigenvalue's vector in the column qtrfit reads.
"""
from __future__ import annotations

import math

import z3

from symx import core, lemma, shims
from symx.core import And
from symx.run import Obligation
from symx.shims import patched

PROP = "C15"


class Ctx:
    """symbolic or concrete provider of inputs for a lemma body"""

    def __init__(self, session=None, values=None):
        self.S = session
        self.values = values
        self.terms = {}

    @property
    def symbolic(self):
        return self.S is not None

    def real(self, name):
        if self.symbolic:
            v = self.S.real(name)
            self.terms[name] = v.t
            return v
        return float(self.values[name])

    def vec(self, name, n=3):
        return [self.real(f"{name}{k}") for k in range(n)]

    def unit(self, name, n=3):
        v = self.vec(name, n)
        if self.symbolic:
            self.S.assume(sum((x * x for x in v), 0) == 1)
            return v
        norm = math.sqrt(sum(x * x for x in v)) or 1.0
        return [x / norm for x in v]

    def positive(self, name):
        v = self.real(name)
        if self.symbolic:
            self.S.assume(v > 0)
            return v
        return abs(v) or 1.0

    def cs(self, name):
        c, s = self.real(name + "_cos"), self.real(name + "_sin")
        if self.symbolic:
            self.S.assume(c * c + s * s == 1)
            return c, s
        n = math.hypot(c, s) or 1.0
        return c / n, s / n


def _cross(a, b):
    return [a[1] * b[2] - a[2] * b[1], a[2] * b[0] - a[0] * b[2], a[0] * b[1] - a[1] * b[0]]


def _dot(a, b):
    return sum((x * y for x, y in zip(a, b)), 0)


def _quat_env(ctx, u_for=None):
    """patches so that quatfit/utilities run on proxies: numpy subset, math
    shim (cos/sin abstracted per angle term), normalize(L*u) -> u"""
    from pdb2pqr import quatfit, utilities

    if not ctx.symbolic:
        return []
    return [(utilities, "np", shims.NP), (utilities, "math", shims.MATH), (quatfit, "math", shims.MATH)]


# ---------------------------------------------------------------------------
# lemma bodies: return [(label, lhs, rhs)] (equalities) for the given context
# ---------------------------------------------------------------------------


def b_q2mat(ctx):
    from pdb2pqr import quatfit

    q = ctx.unit("q", 4)
    R = quatfit.q2mat(q)
    Rn = quatfit.q2mat([-x for x in q])
    out = []
    for i in range(3):
        for j in range(i, 3):
            out.append((f"RtR[{i}][{j}]", sum((R[k][i] * R[k][j] for k in range(3)), 0), 1 if i == j else 0))
    det = R[0][0] * (R[1][1] * R[2][2] - R[1][2] * R[2][1]) - R[0][1] * (R[1][0] * R[2][2] - R[1][2] * R[2][0]) + R[0][2] * (R[1][0] * R[2][1] - R[1][1] * R[2][0])
    out.append(("det=+1 (never a mirror image)", det, 1))
    for i in range(3):
        for j in range(3):
            out.append((f"R(-q)=R(q)[{i}][{j}]", Rn[i][j], R[i][j]))
    return out


def b_horn(ctx, n):
    from pdb2pqr import quatfit

    q = ctx.vec("q", 4)
    D = [ctx.vec(f"def{i}_") for i in range(n)]
    Rf = [ctx.vec(f"ref{i}_") for i in range(n)]
    cap = {}

    def fake_jacobi(amat, nrot):
        cap["c"] = [row[:] for row in amat]
        v = [[0.0] * 4 for _ in range(4)]
        for i in range(4):
            v[i][3] = q[i]
        return [0, 0, 0, 0], v

    with patched((quatfit, "jacobi", fake_jacobi)):
        quat, lrot = quatfit.qtrfit(n, D, Rf, 30)
    C = cap["c"]
    c = lambda i, j: C[i][j] if i <= j else C[j][i]
    qcq = sum((q[i] * c(i, j) * q[j] for i in range(4) for j in range(4)), 0)
    rot = quatfit.rotmol(n, D, quatfit.q2mat(q))
    tr = sum((Rf[i][k] * rot[i][k] for i in range(n) for k in range(3)), 0)
    out = [("q^T C q = sum ref . R(q) def", qcq, tr)]
    # qtrfit hands back the last eigenvector column and its rotation matrix
    for i in range(4):
        out.append((f"quat[{i}] is column 3", quat[i], q[i]))
    R = quatfit.q2mat(q)
    for i in range(3):
        for j in range(3):
            out.append((f"lrot[{i}][{j}]", lrot[i][j], R[i][j]))
    return out


def b_place(ctx, n):
    from pdb2pqr import quatfit

    q = ctx.vec("q", 4)
    ref = [ctx.vec(f"ref{i}_") for i in range(n)]  # structure atoms
    dfn = [ctx.vec(f"def{i}_") for i in range(n)]  # template atoms
    atom = ctx.vec("atom")  # template position of the atom to place
    shift = ctx.vec("t")

    def fake_qtrfit(numpoints, defcoords, refcoords, nrot):
        return q, quatfit.q2mat(q)

    with patched((quatfit, "qtrfit", fake_qtrfit)):
        got = quatfit.find_coordinates(n, ref, dfn, atom)
        got_shifted = quatfit.find_coordinates(n, [[p[k] + shift[k] for k in range(3)] for p in ref], dfn, atom)
        got_tshift = quatfit.find_coordinates(n, ref, [[p[k] + shift[k] for k in range(3)] for p in dfn], [atom[k] + shift[k] for k in range(3)])
    rc = [sum((p[k] for p in ref), 0) / n for k in range(3)]
    dc = [sum((p[k] for p in dfn), 0) / n for k in range(3)]
    R = quatfit.q2mat(q)
    rel = [atom[k] - dc[k] for k in range(3)]
    # the rotation is applied the way rotmol applies it to the fitted points (same convention as the Horn lemma)
    rot = quatfit.rotmol(1, [rel], R)[0]
    out = []
    for k in range(3):
        out.append((f"placed[{k}] = refcentre + R(q)(atom - defcentre)", got[k], rc[k] + rot[k]))
        out.append((f"translating the structure translates the result [{k}]", got_shifted[k], got[k] + shift[k]))
        out.append((f"translating the template changes nothing [{k}]", got_tshift[k], got[k]))
    return out


def b_rodrigues(ctx):
    from pdb2pqr import quatfit, utilities

    u = ctx.unit("u")
    L = ctx.positive("L")
    C, S = ctx.cs("delta")
    p = ctx.vec("p")
    axis = [L * x for x in u]
    if ctx.symbolic:
        angle = core.SymReal(z3.Real("delta_angle"))
        math_ = type("M", (), {"pi": math.pi, "cos": staticmethod(lambda x: C), "sin": staticmethod(lambda x: S)})
        env = [(quatfit, "math", math_), (quatfit, "normalize", lambda v: list(u))]
    else:
        angle = math.degrees(math.atan2(S, C))
        env = []
    with patched(*env):
        out_p = quatfit.qchichange(axis, [p], angle)[0]
    uxp = _cross(u, p)
    up = _dot(u, p)
    want = [C * p[k] + S * uxp[k] + (1 - C) * up * u[k] for k in range(3)]
    out = [(f"qchichange = right-handed Rodrigues [{k}]", out_p[k], want[k]) for k in range(3)]
    out.append(("length preserved", _dot(out_p, out_p), _dot(p, p)))
    out.append(("axial component preserved", _dot(out_p, u), up))
    return out


def b_rodrigues_at(ctx, angle):
    """the same identity for a CONCRETE angle handed to the real qchichange with the real math module (whatever
    it does to the angle before taking cos / sin: reduction, folding, unit conversion), axis and point symbolic;
    the reference uses cos / sin of the requested angle itself"""
    from fractions import Fraction

    from pdb2pqr import quatfit

    u = ctx.unit("u")
    L = ctx.positive("L")
    p = ctx.vec("p")
    axis = [L * x for x in u]
    rad = math.pi * angle / 180.0
    # the code forms 1.0 - cos in floating point before it meets the coordinates: the reference uses the same constant
    Cf, Sf = math.cos(rad), math.sin(rad)
    Mf = 1.0 - Cf
    if ctx.symbolic:
        C, S, M = (core.SymReal(core.rv(v)) for v in (Cf, Sf, Mf))  # floats enter the exact model the same way the code's own constants do
        env = [(quatfit, "normalize", lambda v: list(u))]
    else:
        C, S, M = Cf, Sf, Mf
        env = []
    with patched(*env):
        out_p = quatfit.qchichange(axis, [p], angle)[0]
    uxp = _cross(u, p)
    up = _dot(u, p)
    want = [C * p[k] + S * uxp[k] + M * up * u[k] for k in range(3)]
    return [(f"qchichange({angle} deg) = right-handed Rodrigues by {angle} deg [{k}]", out_p[k], want[k]) for k in range(3)]


def b_torsion(ctx):
    """rotating atom 4 about the 2-3 axis by delta (the real qchichange, as
    set_dihedral_angle does) turns the torsion measured by the real
    utilities.dihedral by exactly delta: (cos, sin) -> (cos, sin)(phi+delta)."""
    from pdb2pqr import quatfit, utilities

    a = ctx.vec("a")
    b = ctx.vec("b")
    u = ctx.unit("u")
    L = ctx.positive("L")
    d = ctx.vec("d")
    C, S = ctx.cs("delta")
    c = [b[k] + L * u[k] for k in range(3)]
    rec = []

    class NPrec(type(shims.NP)):
        def inner(self, x, y):
            r = shims.NumpyShim.inner(x, y)
            rec.append(r)
            return r

    if ctx.symbolic:
        math_q = type("M", (), {"pi": math.pi, "cos": staticmethod(lambda x: C), "sin": staticmethod(lambda x: S)})
        math_u = type("M", (), {"acos": staticmethod(lambda x: 0.0), "pi": math.pi})
        env = [(quatfit, "math", math_q), (quatfit, "normalize", lambda v: list(u)), (utilities, "np", NPrec()), (utilities, "normalize", lambda v: v), (utilities, "math", math_u)]
        angle = core.SymReal(z3.Real("delta_angle"))
    else:
        env = []
        angle = math.degrees(math.atan2(S, C))
    with patched(*env):
        if ctx.symbolic:
            eng = core.cur()
            # measure before (unnormalised normals: scal and chiral are polynomials)
            _measure(utilities, a, b, c, d)
            scal1, chir1 = rec[0], rec[-1]
            del rec[:]
            moved = quatfit.qchichange([c[k] - b[k] for k in range(3)], [[d[k] - b[k] for k in range(3)]], angle)[0]
            d2 = [moved[k] + b[k] for k in range(3)]
            _measure(utilities, a, b, c, d2)
            scal2, chir2 = rec[0], rec[-1]
            return [
                ("cos part: L*scal' = C*L*scal - S*chiral", L * scal2, C * L * scal1 - S * chir1),
                ("sin part: chiral' = C*chiral + S*L*scal", chir2, C * chir1 + S * L * scal1),
                ("distance to atom 2 unchanged", _dot([d2[k] - b[k] for k in range(3)], [d2[k] - b[k] for k in range(3)]), _dot([d[k] - b[k] for k in range(3)], [d[k] - b[k] for k in range(3)])),
                ("distance to atom 3 unchanged", _dot([d2[k] - c[k] for k in range(3)], [d2[k] - c[k] for k in range(3)]), _dot([d[k] - c[k] for k in range(3)], [d[k] - c[k] for k in range(3)])),
            ]
        # concrete replay: independent atan2 torsion before / after, real functions
        phi1 = utilities.dihedral(a, b, c, d)
        moved = quatfit.qchichange([c[k] - b[k] for k in range(3)], [[d[k] - b[k] for k in range(3)]], angle)[0]
        d2 = [moved[k] + b[k] for k in range(3)]
        phi2 = utilities.dihedral(a, b, c, d2)
        want = _torsion_atan2(a, b, c, d) + angle
        diff = (phi2 - want + 180.0) % 360.0 - 180.0
        diff1 = (phi1 - _torsion_atan2(a, b, c, d) + 180.0) % 360.0 - 180.0
        return [("measured torsion after the rotation = torsion before + delta", diff, 0.0), ("utilities.dihedral agrees with the atan2 torsion", diff1, 0.0)]


def _measure(utilities, a, b, c, d):
    try:
        utilities.dihedral(a, b, c, d)
    except Exception:  # noqa: BLE001 - only the recorded inner products are used
        pass


def _torsion_atan2(a, b, c, d):
    b1 = [b[k] - a[k] for k in range(3)]
    b2 = [c[k] - b[k] for k in range(3)]
    b3 = [d[k] - c[k] for k in range(3)]
    n1, n2 = _cross(b1, b2), _cross(b2, b3)
    nb2 = math.sqrt(_dot(b2, b2))
    m1 = _cross(n1, [x / nb2 for x in b2])
    return math.degrees(math.atan2(_dot(m1, n2), _dot(n1, n2)))


BODIES = {"q2mat": b_q2mat, "horn": b_horn, "place": b_place, "rodrigues": b_rodrigues, "torsion": b_torsion, "rodrigues_at": b_rodrigues_at}


def run_lemma(body, timeout_s=120, **kw):
    """lemma obligation: build the terms by running the real code once on
    proxies, discharge every equality with two z3 builds, replay refutations
    on floats."""
    with lemma.Session() as S:
        ctx = Ctx(session=S)
        if body == "torsion":
            # the dihedral code branches on tolerances; keep the straight-line terms only
            S.eng.branch = lambda cond: False  # only reached inside _measure after the recorded products
        goals = BODIES[body](ctx, **kw)
        constraints = S.constraints()
    res = lemma.prove(constraints, [(lab, core.to_real_term(l) == core.to_real_term(r)) for lab, l, r in goals], timeout_s=timeout_s, values_of=ctx.terms)
    out = {"lemma_queries": res["queries"], "lemma_solver_s": res["solver_s"], "distinct": len(goals), "violations": [], "inconclusive": list(res["inconclusive"]), "samples": [{"goal": g[0]} for g in goals[:3]], "goals": res["goals"]}
    for ref in res["refuted"]:
        # replay on floats with the real, unshimmed functions
        try:
            cg = BODIES[body](Ctx(values=ref["values"]), **kw)
            bad = [(lab, l, r) for lab, l, r in cg if abs(l - r) > 1e-6 * (1 + abs(l) + abs(r))]
        except Exception as e:  # noqa: BLE001
            bad = []
            out["inconclusive"].append(f"{ref['label']}: replay raised {type(e).__name__}: {e}")
            continue
        if bad:
            out["violations"].append({"label": ref["label"], "values": {k: str(v) for k, v in ref["values"].items()}, "reproduced": True, "note": "", "replay_detail": "; ".join(f"{lab}: {l:.6g} != {r:.6g}" for lab, l, r in bad[:3])})
        else:
            out["inconclusive"].append(f"{ref['label']}: solver refuted the lemma but the float replay on the real functions agrees (model {ref['values']})")
    return out


# ---------------------------------------------------------------------------
# jacobi: final ordering (symbolic paths)
# ---------------------------------------------------------------------------


def h_jacobi_sorted(eng, zero_allowed):
    """already-diagonal input (no sweep needed): the eigenvector of the largest
    eigenvalue must end in the last column, which is the one qtrfit reads"""
    from pdb2pqr import quatfit

    d = [eng.real(f"lam{i}") for i in range(4)]
    if not zero_allowed:
        eng.assume(And(*[x != 0 for x in d]))
    amat = [[0.0] * 4 for _ in range(4)]
    for i in range(4):
        amat[i][i] = d[i]
    sh = [(quatfit, "math", shims.MATH), (quatfit, "abs", core.sym_abs)] if eng.symbolic else []
    with patched(*sh):
        dvec, vmat = quatfit.jacobi(amat, 30)
    last = [vmat[i][3] for i in range(4)]
    # which input axis is in the last column?
    k = [i for i in range(4) if last[i] == 1.0]
    eng.check(len(k) == 1 and all(last[i] in (0.0, 1.0) for i in range(4)), "last-column-is-a-unit-vector", note=f"last column {last}")
    if len(k) != 1:
        return
    kk = k[0]
    eng.check(And(*[d[kk] >= d[i] for i in range(4)]), "largest-eigenvalue-last", note=f"the last eigenvector column belongs to eigenvalue #{kk}, which is not the largest: the best-fit quaternion is read from the wrong column")
    eng.check(And(*[core.same(dvec[3], d[kk])]), "eigenvalue-matches-vector")
    eng.check(And(dvec[0] <= dvec[1], dvec[1] <= dvec[2], dvec[2] <= dvec[3]), "ascending")


def h_jacobi_rotation(eng, i, j):
    """one sweep on a matrix with a single non-zero off-diagonal pair (i,j): the real rotation step
    must produce an orthogonal V with A0 V = V diag(d)"""
    from pdb2pqr import quatfit

    d = [eng.real(f"a{k}{k}") for k in range(4)]
    b = eng.real("b")
    eng.assume(And(b != 0, *[And(x > -100, x < 100) for x in d], b > -100, b < 100))
    A0 = [[0.0] * 4 for _ in range(4)]
    for k in range(4):
        A0[k][k] = d[k]
    A0[i][j] = b
    amat = [row[:] for row in A0]
    sh = [(quatfit, "math", shims.MATH), (quatfit, "abs", core.sym_abs)] if eng.symbolic else []
    with patched(*sh):
        dvec, vmat = quatfit.jacobi(amat, 1)
    full = lambda r, c: A0[r][c] if r <= c else A0[c][r]
    for c in range(4):
        for r in range(4):
            lhs = sum((full(r, k) * vmat[k][c] for k in range(4)), 0)
            eng.check(core.close(lhs, vmat[r][c] * dvec[c], 1e-9), "A.v = lambda.v", note=f"column {c} of the eigenvector matrix is not an eigenvector of the input for its eigenvalue (row {r})")
    for c1 in range(4):
        for c2 in range(c1, 4):
            dot = sum((vmat[k][c1] * vmat[k][c2] for k in range(4)), 0)
            eng.check(core.close(dot, 1 if c1 == c2 else 0, 1e-9), "V-orthonormal", note=f"columns {c1},{c2} of the eigenvector matrix are not orthonormal")
    eng.check(And(dvec[0] <= dvec[1], dvec[1] <= dvec[2], dvec[2] <= dvec[3]), "ascending")


def table_exact_turns():
    """find_coordinates on planar, mirror-symmetric three-atom templates whose structure copy is turned by a quarter
    turn about the plane normal or by the axis-permuting third of a turn, with integer / dyadic coordinates (the
    quaternion matrix then has an exactly zero diagonal, the case in which the Jacobi sweep must still rotate):
    the placed atom is the rigid image.  Finite menu (table lemma: enumeration, not symbolic)."""
    from pdb2pqr import quatfit

    rows, violations = 0, []
    templates = [[(1.0, 0.0, 0.0), (-1.0, 0.0, 0.0), (0.0, 2.0, 0.0)], [(0.5, 0.0, 0.0), (-0.5, 0.0, 0.0), (0.0, 0.75, 0.0)], [(2.0, 0.0, 0.0), (-2.0, 0.0, 0.0), (0.0, 0.0, 1.0)]]
    atom = (0.25, 0.5, 1.5)
    turns = {"quarter-z": lambda p: (-p[1], p[0], p[2]), "three-quarter-z": lambda p: (p[1], -p[0], p[2]), "third-111": lambda p: (p[2], p[0], p[1]), "two-thirds-111": lambda p: (p[1], p[2], p[0]), "quarter-y": lambda p: (p[2], p[1], -p[0]), "identity": lambda p: p, "half-z": lambda p: (-p[0], -p[1], p[2])}
    shifts = [(0.0, 0.0, 0.0), (3.0, -2.0, 5.0), (4096.0, 0.0, -8.0)]
    for ti, tmpl in enumerate(templates):
        for tname, R in turns.items():
            for sh in shifts:
                rows += 1
                struct = [tuple(R(p)[k] + sh[k] for k in range(3)) for p in tmpl]
                want = tuple(R(atom)[k] + sh[k] for k in range(3))
                try:
                    got = quatfit.find_coordinates(3, [list(p) for p in struct], [list(p) for p in tmpl], list(atom))
                    err = max(abs(float(got[k]) - want[k]) for k in range(3))
                except Exception as e:  # noqa: BLE001
                    err, got = float("inf"), f"{type(e).__name__}: {e}"
                if not err < 1e-6:
                    violations.append({"label": "placed-atom-is-the-rigid-image", "values": {"template": ti, "turn": tname, "shift": str(sh)}, "reproduced": True, "replay_detail": f"template {ti} turned by {tname}, shifted {sh}: placed at {got}, rigid image {want}"})
    return {"table_rows": rows, "distinct": rows, "violations": violations, "samples": [{"rows": rows}]}


def h_tetrahedral_movers(eng, resname, centre):
    """Residue.rotate_tetrahedral(atom1, atom2, angle) turns exactly the atoms bonded to atom2 other than atom1 -
    whichever bonded neighbour of atom2 is the axis partner, wherever it stands in atom2's bond list (selector);
    the rotation itself is abstracted to arbitrary new positions"""
    from pdb2pqr import residue as residue_mod

    from . import c04

    bm, res = c04._setup(resname, "internal", False)
    atom2 = res.get_atom(centre)
    partners = list(atom2.bonds)
    atom1 = partners[eng.choice("axis_partner_index_in_bond_list", len(partners))]
    before = {a.name: (a.x, a.y, a.z) for a in res.atoms}

    class Quat:
        @staticmethod
        def qchichange(initcoords, movecoords, angle):
            return [[eng.real(f"moved{i}_{ax}") for ax in "xyz"] for i in range(len(movecoords))]

    sym = [(residue_mod, "quat", Quat), (residue_mod.util, "np", shims.NP)] if eng.symbolic else []
    with patched(*sym):
        res.rotate_tetrahedral(atom1, atom2, 37.0)
    if eng.symbolic:
        changed = {a.name for a in res.atoms if any(now is not was for now, was in zip((a.x, a.y, a.z), before[a.name]))}
    else:
        changed = {a.name for a in res.atoms if max(abs(now - was) for now, was in zip((a.x, a.y, a.z), before[a.name])) > 1e-9}
    want = {a.name for a in partners if a is not atom1}
    eng.check(changed == want, "rotates-the-other-substituents-of-atom2", note=f"{resname}: rotate_tetrahedral({atom1.name}, {atom2.name}) with bond list {[a.name for a in partners]} moved {sorted(changed)}, the substituents other than the axis partner are {sorted(want)}")


def h_dihedral_record(eng, resname, anglenum, recorded=None, warm=False):
    """after Debump.set_dihedral_angle the recorded torsion (residue.dihedrals[n], from which the NEXT call
    computes its rotation) is the torsion of the coordinates as they are NOW.  utilities.dihedral is an
    uninterpreted function of the four positions it is handed; the rotation result is arbitrary."""
    from pdb2pqr import debump, utilities

    from . import c04

    # warm: the Debump object already served on the heavy-atom structure (scored / turned every torsion, also those whose
    # fourth atom is a hydrogen added later), as in main: debump, add hydrogens, debump / optimise
    c04.WARM[0] = bool(warm)
    try:
        bm, res = c04._setup(resname, "internal", False)
        deb = c04._new_debump(bm)
    finally:
        c04.WARM[0] = False
        c04._WARMED.clear()
    names = res.reference.dihedrals[anglenum].split()
    moved = res.get_moveable_names(names[2])

    class NoCells:
        def add_cell(self, a):
            pass

        def remove_cell(self, a):
            pass

    deb.cells = NoCells()
    pivot = res.get_atom(names[1]).coords
    fresh = {nm: [eng.real(f"{nm}_{ax}_new") for ax in "xyz"] for nm in moved}

    class Quat:
        @staticmethod
        def qchichange(initcoords, movecoords, diff):
            return [[fresh[nm][k] - pivot[k] for k in range(3)] for nm in moved]

    memo = {}

    def key_of(coords):
        return tuple((z3.simplify(v.t).get_id() if core.is_sym(v) else ("c", float(v))) for c in coords for v in c)

    def dihedral(c0, c1, c2, c3):
        k = key_of((c0, c1, c2, c3))
        if k not in memo:
            memo[k] = eng.real(f"torsion_of_positions_{len(memo)}")
        return memo[k]

    target = eng.real("target_angle")
    if recorded is not None:
        res.dihedrals[anglenum] = recorded  # e.g. exactly 0.0 / -0.0: planar template geometry, or a torsion just set to 0
        eng.assume(target != recorded)
    sym = [(utilities, "np", shims.NP), (utilities, "dihedral", dihedral), (debump, "int", core.sym_int_t)] if eng.symbolic else []
    with patched(*sym, (debump, "quat", Quat)):
        deb.set_dihedral_angle(res, anglenum, target)
        now = [res.get_atom(n).coords for n in names]
        if eng.symbolic:
            fourth = res.get_atom(names[3])
            eng.check(And(*[core.same(v, w) for v, w in zip((fourth.x, fourth.y, fourth.z), fresh[names[3]])]) if names[3] in fresh else True, "requested-rotation-is-carried-out", note=f"{resname} chi{anglenum + 1}: set_dihedral_angle returned without moving the atoms although the target differs from the recorded torsion {res.dihedrals[anglenum]!r}")
        elif names[3] in fresh:
            fourth = res.get_atom(names[3])
            eng.check(all(abs(float(v) - float(w)) < 1e-6 for v, w in zip((fourth.x, fourth.y, fourth.z), fresh[names[3]])), "requested-rotation-is-carried-out", note=f"{resname} chi{anglenum + 1}: the torsion's fourth atom {names[3]} is not where the rotation put it (set_dihedral_angle turned another set of atoms)")
        recorded = res.dihedrals[anglenum]
        if eng.symbolic:
            want = dihedral(*now)  # positions are compared as simplified terms ((new - pivot) + pivot = new)
            eng.check(core.same(recorded, want), "recorded-torsion-is-the-current-one", note=f"{resname} chi{anglenum + 1}: residue.dihedrals holds the torsion of other positions than the atoms' current ones")
        else:
            want = utilities.dihedral(*now)
            eng.check(abs((recorded - want + 180.0) % 360.0 - 180.0) < 1e-6, "recorded-torsion-is-the-current-one", note=f"{resname} chi{anglenum + 1}: residue.dihedrals holds {recorded}, the coordinates show {want}")


def obligations(tier):
    obs = [
        Obligation("lemma-q2mat", run_lemma, dict(body="q2mat"), kind="lemma", group="lemma"),
        Obligation("lemma-rodrigues", run_lemma, dict(body="rodrigues"), kind="lemma", group="lemma"),
        Obligation("lemma-torsion", run_lemma, dict(body="torsion", timeout_s=240), kind="lemma", group="lemma"),
        *[Obligation(f"lemma-rodrigues-at-{a}", run_lemma, dict(body="rodrigues_at", angle=a), kind="lemma", group="lemma") for a in ((200.0, -200.0, 365.0, 181.0, -180.0) if tier == "quick" else (200.0, -200.0, 270.0, -270.0, 365.0, -365.0, 540.0, 180.0, -180.0, 181.0, 179.5, 720.25, 5.0, -120.0, 240.0, 359.0))],
    ]
    for n in (1, 2, 3) if tier == "quick" else (1, 2, 3, 4, 5):
        obs.append(Obligation(f"lemma-horn-n{n}", run_lemma, dict(body="horn", n=n), kind="lemma", group="lemma"))
    for n in (3,) if tier == "quick" else (1, 2, 3, 4):
        obs.append(Obligation(f"lemma-place-n{n}", run_lemma, dict(body="place", n=n), kind="lemma", group="lemma"))
    # h_jacobi_rotation (one real rotation step on a symbolic matrix) was probed: z3 answers unknown
    # after 60 s on the eigen-equations through 1/(|q|+sqrt(1+q^2)); it is not registered (DESIGN 2.1.6)
    for resname, centre in (("SER", "CB"), ("LYS", "NZ")) if tier == "quick" else (("SER", "CB"), ("SER", "OG"), ("LYS", "NZ"), ("LYS", "CE"), ("THR", "CB"), ("ALA", "CA"), ("MET", "CE")):
        obs.append(Obligation(f"tetrahedral-movers-{resname}-{centre}", h_tetrahedral_movers, dict(resname=resname, centre=centre), group="tetrahedral-movers", time_cap=600))
    for resname, k in (("LYS", 0), ("LYS", 3)) if tier == "quick" else (("LYS", 0), ("LYS", 1), ("LYS", 2), ("LYS", 3), ("SER", 0), ("ARG", 2), ("MET", 1), ("HIS", 1)):
        obs.append(Obligation(f"dihedral-record-{resname}-chi{k + 1}", h_dihedral_record, dict(resname=resname, anglenum=k), group="dihedral-record", time_cap=600))
    for rec in (0.0, -0.0, 180.0):
        obs.append(Obligation(f"dihedral-record-LYS-chi2-from-{rec!r}", h_dihedral_record, dict(resname="LYS", anglenum=1, recorded=rec), group="dihedral-record", time_cap=600))
    for resname, k in (("SER", 1), ("LYS", 4), ("TYR", 2)) if tier == "quick" else (("SER", 1), ("LYS", 4), ("TYR", 2), ("THR", 1), ("LYS", 1), ("MET", 2)):
        obs.append(Obligation(f"dihedral-record-{resname}-chi{k + 1}-reused-debump-object", h_dihedral_record, dict(resname=resname, anglenum=k, warm=True), group="dihedral-record", time_cap=600))
    obs.append(Obligation("placement-exact-turns", table_exact_turns, {}, kind="table", group="placement"))
    obs.append(Obligation("jacobi-sorted-nonzero", h_jacobi_sorted, dict(zero_allowed=False), group="jacobi", time_cap=1200))
    obs.append(Obligation("jacobi-sorted-zero-allowed", h_jacobi_sorted, dict(zero_allowed=True), group="jacobi", time_cap=1200))
    return obs


def encoded():
    from pdb2pqr import quatfit, utilities

    return [quatfit.q2mat, quatfit.qtrfit, quatfit.rotmol, quatfit.center, quatfit.translate, quatfit.qtransform, quatfit.qfit, quatfit.find_coordinates, quatfit.qchichange, quatfit.jacobi, utilities.dihedral]


META = dict(
    stubs=[
        "exact real arithmetic for floats; math.cos/sin of the rotation angle -> a pair (C,S) with C^2+S^2=1 (nothing else assumed about the angle); normalize(L*u) -> u for the axis parameterisation c = b + L*u, |u|=1, L>0",
        "horn/place: quatfit.jacobi / qtrfit replaced by a stub returning an arbitrary quaternion (the eigen-solver's convergence is a floating-point claim, outside)",
        "torsion: utilities.normalize -> identity and acos -> constant while recording the two inner products the real dihedral computes (cos part and handedness part), so they are polynomials",
        "jacobi-sorted: pdb2pqr.quatfit.abs/math -> symx shims",
    ],
    bounds=[
        "all coordinates, quaternions, axes and angles unbounded symbolic reals (no numeric ranges)",
        "number of fitted points: horn 1-3 (thorough 5), placement 3 (thorough 1-4)",
        "jacobi: already-diagonal 4x4 input with arbitrary real diagonal (the no-sweep path); all 24 orderings",
    ],
    outside=[
        "that 30 Jacobi sweeps converge to 1e-6 A in floating point; the rotation steps of the sweep themselves",
        "degenerate inputs (collinear reference atoms, zero-length axis), rounding",
        "the 0.05 degree / 1e-6 A tolerances: the lemmas are exact over the reals",
    ],
    assumptions=["the maximiser of q^T C q over unit quaternions is the eigenvector of the largest eigenvalue (linear algebra fact, not checked)"],
    technique="real code executed on z3 Real proxies, polynomial lemmas discharged by z3 (two builds, QF_NRA) + path exploration for the jacobi ordering",
)

MANIFEST = dict(
    text="For C15: exact-real lemmas on terms produced by running the real quatfit/utilities functions on proxies - q2mat(q) orthogonal with det +1 and R(-q)=R(q) for every unit q; q^T.cmat.q = sum ref.(R(q).def) for every q and every point set (1-3 points; ties the sign/index conventions of qtrfit, q2mat and rotmol); find_coordinates = refcentre + R(q)(atom - defcentre) and translation-equivariant; qchichange = right-handed Rodrigues rotation preserving length and axial component for every unit axis and angle (abstract cos/sin) and for concrete angles beyond half a turn and beyond a full turn through the real math module; after set_dihedral_angle the recorded torsion is the torsion of the current coordinates (dihedral uninterpreted); rotating atom 4 by delta turns the (cos, sin) of the torsion measured by utilities.dihedral by exactly delta and keeps both axis distances; jacobi's no-sweep path leaves the largest eigenvalue's vector in the last column for every real diagonal. Round 4: rotate_tetrahedral turns exactly the substituents of atom2 other than the axis partner, wherever the partner stands in the bond list (selector). Round 5: a recorded torsion of exactly 0.0 / -0.0 / 180.0 does not stop the requested rotation.",
    note="Trusted: z3 (wheel 5.1.0 and /usr/bin/z3 4.8.12 must not disagree), exact reals for floats, cos/sin abstracted to the unit circle. The Jacobi sweep's convergence and floating-point tolerances are outside; that the top eigenvector maximises the quadratic form is assumed.",
    technique="polynomial lemmas over terms from the real code, decided by z3 QF_NRA (two builds); symbolic paths for jacobi's ordering",
    design="DESIGN.md section 3 C15",
)
