"""Shared control-flow harness: the real main.transform_arguments, check_files,
check_options, main_driver, non_trivial, is_repairable, drop_water, print_pqr
and print_pdb run on symbolic option values while every pipeline *stage* they
call is a recording stub that can raise a symbolically chosen exception.

Used by C12 (fault schedules), C09 (2-run self-composition over formatting
options) and C04 (option gating).
"""
from __future__ import annotations

import types

from symx import core
from symx.shims import patched

from . import fixtures  # noqa: F401  (silences pdb2pqr's loggers)

EXCEPTIONS = [ValueError, RuntimeError, KeyError, IndexError, TypeError, FileNotFoundError]

FORMATTING_FLAGS = ("whitespace", "keep_chain", "include_header")
MODEL_STAGES_PREFIX = "bm."  # every biomolecule method + the constructors below


class Injected(Exception):
    pass


class Tagged(str):
    """a string value that remembers which option it came from (taint)"""

    def __new__(cls, value, tag):
        s = str.__new__(cls, value)
        s.tag = tag
        return s

    def lower(self):
        return Tagged(str.lower(self), self.tag)

    def upper(self):
        return Tagged(str.upper(self), self.tag)


def describe(v, depth=0):
    """hashable, comparable description of a stage argument"""
    if isinstance(v, core.SymBool):
        return ("symbool", str(core._simp(v.t)))
    if isinstance(v, (core.SymInt, core.SymReal)):
        return ("symnum", str(core._simp(v.t)))
    if isinstance(v, Tagged):
        return ("tagged", v.tag, str(v))
    if isinstance(v, (str, int, float, bool)) or v is None:
        return v
    if isinstance(v, (list, tuple)) and depth < 3:
        return tuple(describe(x, depth + 1) for x in v)
    if isinstance(v, dict) and depth < 3:
        return tuple(sorted((str(k), describe(x, depth + 1)) for k, x in v.items()))
    if hasattr(v, "_desc"):
        return v._desc
    if isinstance(v, types.SimpleNamespace) or type(v).__name__ == "Args":
        return ("args",)
    return ("obj", type(v).__name__)


def taints(v, depth=0):
    """set of option tags reachable in a stage argument"""
    out = set()
    if isinstance(v, Tagged):
        out.add(v.tag)
    elif isinstance(v, core.SymBool):
        out.add(("symbool", str(core._simp(v.t))))
    elif isinstance(v, (list, tuple)) and depth < 3:
        for x in v:
            out |= taints(x, depth + 1)
    elif isinstance(v, dict) and depth < 3:
        for x in v.values():
            out |= taints(x, depth + 1)
    elif hasattr(v, "_taint"):
        out |= set(v._taint)
    return out


class World:
    """One run of main_driver in a recording environment."""

    def __init__(self, eng, run_tag, faults_enabled, shared_faults, exceptions, charges=None, nres=2):
        self.eng = eng
        self.tag = run_tag
        self.log = []  # (stage, described args)
        self.raw = []  # (stage, raw args) for taint checks
        self.opens = []  # (path description, mode, len(log) at open, [writes])
        self.faults_enabled = faults_enabled
        self.shared = shared_faults
        self.exceptions = exceptions
        self.injected = None  # (stage, exception type, position)
        self.counts = {}
        self.charges = charges
        self.nres = nres
        self.freedom = []  # (stage, flag) pairs where a formatting flag was already constrained
        self.num_missing = 0
        self.is_cif = False
        self.files_symbolic = False

    # ------------------------------------------------------------------
    def stage(self, name, *args, **kw):
        n = self.counts.get(name, 0)
        self.counts[name] = n + 1
        self.log.append((name, describe(args), describe(kw)))
        self.raw.append((name, args, kw))
        if not self.faults_enabled or self.injected is not None:
            return
        key = f"fault@{name}#{n}"
        if key not in self.shared:
            self.shared[key] = self.eng.choice(key, 1 + len(self.exceptions))
        k = self.shared[key]
        if k:
            exc = self.exceptions[k - 1]
            self.injected = (name, exc.__name__, len(self.log))
            raise exc(f"injected at {name}")

    def fake_open(self, path, mode="r", *a, **k):
        w = self
        entry = [describe(path), mode, len(self.log), [], path]
        self.opens.append(entry)

        class F:
            def __enter__(s):
                return s

            def __exit__(s, *e):
                return False

            def write(s, text):
                entry[3].append(text)

            def read(s):
                return ""

            def readlines(s):
                return []

        # recorded, but not a fault point: failures of the output medium itself are outside the property
        self.log.append(("open", describe((path, mode)), ()))
        self.raw.append(("open", (path, mode), {}))
        return F()


def make_env(w: World, main):
    """patch triples installing the recording stubs into pdb2pqr.main"""
    eng = w.eng

    class Obj:
        def __init__(self, desc, taint=()):
            self._desc = desc
            self._taint = set(taint)

    class Rec(Obj):
        def __init__(self, i, rtype, res_name):
            super().__init__(("record", i, rtype, res_name))
            self.res_name = res_name
            self._rtype = rtype

        def record_type(self):
            return self._rtype

    class FakeAtom(Obj):
        def __init__(self, i):
            super().__init__(("atom", i))
            self.type = "ATOM"
            self.name = f"A{i}"
            self.alt_loc = ""
            self.chain_id = "A"
            self.serial = None

        def get_pqr_string(self, chainflag=False):
            w.stage("atom.get_pqr_string", self._desc[1], chainflag)
            return f"ATOM  {self._desc[1]:5d} "

        def get_pdb_string(self):
            w.stage("atom.get_pdb_string", self._desc[1])
            return f"ATOM  {self._desc[1]:5d} "

    class FakeResidue(Obj):
        def __init__(self, i, charge, spec=None):
            super().__init__(("residue", i))
            self.atoms = [FakeAtom(2 * i), FakeAtom(2 * i + 1)]
            self._charge = charge
            self.name = "ALA"
            self.res_seq = i
            if spec is not None:
                # (residue name, [(atom name, record type, has force-field parameters)])
                self.name = spec[0]
                self.atoms = []
                extra = spec[2] if len(spec) > 2 else {}
                self.res_seq = extra.get("res_seq", i)
                self.chain_id = extra.get("chain_id", "A")
                for k, (an, rt, has_ff) in enumerate(spec[1]):
                    a = FakeAtom(100 * i + k)
                    a.name, a.type, a.has_ff = an, rt, has_ff
                    a.chain_id, a.res_seq, a.res_name, a.ins_code = self.chain_id, self.res_seq, self.name, ""
                    a.residue = self
                    a.ffcharge = 0.125 if has_ff else None
                    a.radius = 1.5 if has_ff else None
                    self.atoms.append(a)

        @property
        def charge(self):
            if getattr(w, "charge_from_atoms", False):
                tot = 0
                for a in self.atoms:
                    if a.ffcharge is not None:
                        tot = tot + a.ffcharge
                return tot
            return self._charge

        def __str__(self):
            return f"ALA A {self.res_seq}"

    class FakeBiomolecule(Obj):
        def __init__(self, pdblist, definition):
            super().__init__(("biomolecule",))
            w.stage("Biomolecule", pdblist, definition)
            charges = w.charges if w.charges is not None else [0.0] * w.nres
            if getattr(w, "residue_specs", None):
                self.residues = [FakeResidue(i, 0.0, spec) for i, spec in enumerate(w.residue_specs)]
            else:
                self.residues = [FakeResidue(i, c) for i, c in enumerate(charges)]
            self.pdblist = pdblist
            self.num_heavy = getattr(w, "num_heavy", 100)

        @property
        def atoms(self):
            return [a for r in self.residues for a in r.atoms]

        @property
        def num_missing_heavy(self):
            w.stage("bm.num_missing_heavy")
            return w.num_missing

        @property
        def charge(self):
            w.stage("bm.charge")
            return [], sum(r.charge for r in self.residues)

        def apply_force_field(self, ff):
            w.stage("bm.apply_force_field", ff)
            if getattr(w, "residue_specs", None):
                return [a for a in self.atoms if a.has_ff], [a for a in self.atoms if not a.has_ff]
            if getattr(w, "unassigned_last", False):
                # one atom (an ion, a cap) has no parameters: it is reported, it does not contribute to any residue charge
                return list(self.atoms)[:-1], list(self.atoms)[-1:]
            return list(self.atoms), []

        def __getattr__(self, name):
            if name.startswith("_"):
                raise AttributeError(name)

            def method(*a, **k):
                w.stage(f"bm.{name}", *a, **k)

            return method

    class FakeFF(Obj):
        def __init__(self, ff, definition, userff=None, usernames=None):
            t = taints(ff)
            super().__init__(("forcefield", describe(ff)), t)
            w.stage("Forcefield", ff, definition, userff, usernames)
            self.name = ff

    class FakeDebump(Obj):
        def __init__(self, biomolecule, definition=None):
            super().__init__(("debumper",))
            w.stage("Debump", biomolecule)

        def debump_biomolecule(self):
            w.stage("debump.debump_biomolecule")

    class FakeHR(Obj):
        def __init__(self, debumper, handler):
            super().__init__(("hydrogen_routines",))
            w.stage("HydrogenRoutines", debumper, handler)

        def __getattr__(self, name):
            if name.startswith("_"):
                raise AttributeError(name)

            def method(*a, **k):
                w.stage(f"hr.{name}", *a, **k)

            return method

    class FakeLigand(Obj):
        def __init__(self):
            super().__init__(("ligand",))
            self.atoms = dict(getattr(w, "ligand_atoms", None) or {})

        def assign_parameters(self):
            w.stage("ligand.assign_parameters")

    def setup_molecule(pdblist, definition, ligand_path):
        w.stage("setup_molecule", pdblist, definition, ligand_path)
        bm = FakeBiomolecule(pdblist, definition)
        return bm, definition, (FakeLigand() if ligand_path is not None else None)

    real_io = main.io

    class IO:
        @staticmethod
        def get_definitions():
            w.stage("io.get_definitions")
            return Obj(("definition",))

        @staticmethod
        def get_molecule(path):
            w.stage("io.get_molecule", path)
            return [Rec(0, "ATOM", "ALA"), Rec(1, "HETATM", "HOH"), Rec(2, "ATOM", "GLY")], w.is_cif

        @staticmethod
        def test_dat_file(name):
            w.stage("io.test_dat_file", name)
            return "path"

        @staticmethod
        def print_biomolecule_atoms(atomlist, chainflag=False, pdbfile=False):
            # the real function: it is part of the printing stage under test
            w.stage("io.print_biomolecule_atoms", len(atomlist), chainflag, pdbfile)
            return real_io.print_biomolecule_atoms(atomlist, chainflag, pdbfile)

        @staticmethod
        def print_pqr_header(*a, **k):
            w.stage("io.print_pqr_header", *a, **k)
            return "HEADER\n"

        @staticmethod
        def print_pqr_header_cif(*a, **k):
            w.stage("io.print_pqr_header_cif", *a, **k)
            return "HEADER\n"

        @staticmethod
        def dump_apbs(output_pqr, output_path):
            w.stage("io.dump_apbs", output_pqr, output_path)

    class FF:
        Forcefield = FakeFF

    class HYD:
        HydrogenRoutines = FakeHR

        @staticmethod
        def create_handler():
            w.stage("hydrogens.create_handler")
            return Obj(("hydrogen_handler",))

    class DEB:
        Debump = FakeDebump

    def run_propka(args, biomolecule):
        w.stage("run_propka", biomolecule)
        # contract of the real function: it renders the atoms as PDB text first
        IO.print_biomolecule_atoms(atomlist=biomolecule.atoms, chainflag=args.keep_chain, pdbfile=True)
        return [], ""

    class FakePath:
        def __init__(self, p):
            self.p = p

        def is_file(self):
            key = f"exists@{describe(self.p)}"
            if key not in w.shared:
                w.shared[key] = eng.flag(key) if w.files_symbolic else True
            return w.shared[key]

        def __str__(self):
            return str(self.p)

    return [
        (main, "io", IO),
        (main, "forcefield", FF),
        (main, "hydrogens", HYD),
        (main, "debump", DEB),
        (main, "setup_molecule", setup_molecule),
        (main, "run_propka", run_propka),
        (main, "open", w.fake_open),
        (main, "Path", FakePath),
        (main, "print_splash_screen", lambda args: None),
    ]


class Args:
    def __init__(self, **kw):
        self.__dict__.update(kw)

    def __contains__(self, k):
        return k in self.__dict__

    def __repr__(self):
        return "Args(...)"


def run_driver(w: World, opts):
    """Run the real main_driver under the recording environment.
    Returns the exception raised (or None)."""
    from pdb2pqr import main

    args = Args(**opts)
    with patched(*make_env(w, main)):
        try:
            main.main_driver(args)
        except Exception as e:  # noqa: BLE001 - any exception is a loud failure; the oracle decides
            return e
    return None


def symbolic_options(eng, suffix="", share=None, formatting=None, model=None, fixed=None):
    """Option valuation: model-affecting booleans are SymBools (forked only
    where the real code branches on them), formatting flags likewise; string
    valued options are concretised choices, tagged for taint tracking."""
    share = share if share is not None else {}

    def shared(name, mk):
        if name not in share:
            share[name] = mk()
        return share[name]

    o = {}
    for f in ("clean", "assign_only", "debump", "opt", "drop_water", "neutraln", "neutralc"):
        o[f] = shared(f, lambda f=f: (model or {}).get(f, None) if (model and f in model) else eng.bool(f))
    fixed = fixed or {}
    ffi = shared("ff", lambda: fixed["ff"] if "ff" in fixed else eng.choice("ff", 3))
    o["ff"] = ["PARSE", "amber", None][ffi]
    o["userff"] = None if o["ff"] is not None else "user.dat"
    o["usernames"] = shared("usernames", lambda: ["user.names", None][eng.choice("usernames", 2)]) if o["ff"] is None else None
    o["pka_method"] = shared("pka", lambda: [None, "propka"][fixed["pka"] if "pka" in fixed else eng.choice("pka", 2)])
    o["ligand"] = shared("ligand", lambda: [None, "lig.mol2"][fixed["ligand"] if "ligand" in fixed else eng.choice("ligand", 2)])
    o["ph"] = shared("ph", lambda: eng.real("ph"))
    o["input_path"] = "in.pdb"
    o["output_pqr"] = Tagged("out.pqr", "output_pqr")
    o["log_level"] = "INFO"
    o["parameters"] = "propka.cfg"
    # formatting / naming options (independent per run when suffix differs)
    fm = formatting or {}
    for f in FORMATTING_FLAGS:
        o[f] = fm[f] if f in fm else eng.bool(f + suffix)
    k = fm["ffout"] if "ffout" in fm else eng.choice("ffout" + suffix, 3)
    o["ffout"] = [None, Tagged("parse", "ffout"), Tagged("CHARMM", "ffout")][k]
    k = fm["pdb_output"] if "pdb_output" in fm else eng.choice("pdb_output" + suffix, 2)
    o["pdb_output"] = [None, Tagged("out.pdb", "pdb_output")][k]
    k = fm["apbs_input"] if "apbs_input" in fm else eng.choice("apbs_input" + suffix, 2)
    o["apbs_input"] = [None, Tagged("out.in", "apbs_input")][k]
    return o


MODEL_STAGES = (
    "io.get_definitions",
    "io.get_molecule",
    "setup_molecule",
    "Biomolecule",
    "Forcefield",
    "Debump",
    "HydrogenRoutines",
    "hydrogens.create_handler",
    "debump.debump_biomolecule",
    "run_propka",
    "ligand.assign_parameters",
)


def is_model_stage(name):
    return name.startswith("bm.") and name not in ("bm.apply_name_scheme", "bm.charge") or name.startswith("hr.") or name in MODEL_STAGES


def model_log(w):
    """the model-affecting part of the stage log (excluding the naming-scheme
    force field, which is constructed from --ffout by design)"""
    out = []
    for (name, a, k), (_n, raw_a, raw_k) in zip(w.log, w.raw):
        if not is_model_stage(name):
            continue
        if name == "Forcefield" and "ffout" in taints(raw_a):
            continue
        out.append((name, a, k))
    return out
