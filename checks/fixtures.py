"""Structures for harnesses, generated on every run from the repository's own
topology templates (AA.xml/NA.xml coordinates) and pushed through the real
reader and the real Biomolecule constructor - nothing is stored in /verif."""
from __future__ import annotations

import io as _io
import logging
import pickle

_DEF_BLOB = None

_LG = logging.getLogger("pdb2pqr")
_LG.setLevel(logging.CRITICAL)
_LG.propagate = False
_LG.addHandler(logging.NullHandler())


def _silence_main_logger():
    from pdb2pqr import main

    main._LOGGER.setLevel(logging.CRITICAL + 1)
    main._LOGGER.propagate = False
    main._LOGGER.addHandler(logging.NullHandler())


_silence_main_logger()


def definition():
    """A fresh, unshared Definition (pipeline stages mutate shared reference
    objects, e.g. the PEPTIDE patch, so harness paths must not share one)."""
    global _DEF_BLOB
    if _DEF_BLOB is None:
        from pdb2pqr import io

        _DEF_BLOB = pickle.dumps(io.get_definitions())
    return pickle.loads(_DEF_BLOB)


_PRISTINE = None


def pristine_definition():
    global _PRISTINE
    if _PRISTINE is None:
        _PRISTINE = definition()
    return _PRISTINE


def atom_line(serial, name, resname, chain, resseq, x, y, z, icode=" ", altloc=" ", record="ATOM", element=None):
    if len(name) < 4:
        fname = " " + name.ljust(3)
    else:
        fname = name[:4]
    el = element or name.lstrip("0123456789")[0]
    return (
        f"{record:<6s}{serial:>5d} {fname}{altloc}{resname:>3s} {chain:1s}{resseq:>4d}{icode:1s}   "
        f"{x:8.3f}{y:8.3f}{z:8.3f}{1.0:6.2f}{0.0:6.2f}          {el:>2s}"
    )


def residue_lines(resname, chain, resseq, serial0=1, offset=(0.0, 0.0, 0.0), heavy_only=True, omit=(), record="ATOM", icode=" ", extra=()):
    """ATOM lines for one residue from its template coordinates."""
    ref = pristine_definition().map[resname]
    out = []
    s = serial0
    for name, a in ref.map.items():
        if heavy_only and name.startswith("H"):
            continue
        if name in omit:
            continue
        out.append(atom_line(s, name, resname if resname != "WAT" else "HOH", chain, resseq, a.x + offset[0], a.y + offset[1], a.z + offset[2], icode=icode, record=record))
        s += 1
    for name, (x, y, z) in extra:
        out.append(atom_line(s, name, resname, chain, resseq, x, y, z, icode=icode, record=record))
        s += 1
    return out


def peptide_lines(seq, chain="A", start=1, origin=(0.0, 0.0, 0.0), step=(-3.8, 0.0, 0.0), serial0=1, omit=None, ter=True):
    """A chain of residues laid out so that consecutive C-N distances are a
    peptide bond (1.35 A with the template geometry)."""
    lines = []
    s = serial0
    for i, name in enumerate(seq):
        off = (origin[0] + i * step[0], origin[1] + i * step[1], origin[2] + i * step[2])
        rl = residue_lines(name, chain, start + i, s, off, omit=(omit or {}).get(i, ()))
        s += len(rl)
        lines += rl
    if ter:
        lines.append("TER")
    return lines


def read_records(lines):
    from pdb2pqr import pdb

    recs, errs = pdb.read_pdb(_io.StringIO("\n".join(lines) + "\n"))
    return recs


def biomolecule(lines, defn=None):
    from pdb2pqr import biomolecule as biomol

    defn = defn or definition()
    return biomol.Biomolecule(read_records(lines), defn), defn


def prepared(lines, neutraln=False, neutralc=False):
    """Biomolecule after the stages main_driver runs before non_trivial."""
    bm, defn = biomolecule(lines)
    bm.set_termini(neutraln=neutraln, neutralc=neutralc)
    bm.update_bonds()
    return bm, defn


class Args:
    """argparse.Namespace stand-in with the defaults of build_main_parser."""

    def __init__(self, **kw):
        from pdb2pqr import main

        p = main.build_main_parser()
        ns = p.parse_args(["in.pdb", "out.pqr"])
        self.__dict__.update(vars(ns))
        self.__dict__.update(kw)

    def __contains__(self, k):
        return k in self.__dict__


def nucleic_lines(seq, chain="A", start=1, serial0=1, spacing=9.0, origin=(0.0, 0.0, 0.0), ter=True):
    """A nucleic-acid strand from NA.xml template coordinates (residues are
    laid out `spacing` A apart; pdb2pqr does not use inter-nucleotide geometry)."""
    lines = []
    s = serial0
    for i, name in enumerate(seq):
        off = (origin[0] + i * spacing, origin[1], origin[2])
        rl = residue_lines(name, chain, start + i, s, off)
        s += len(rl)
        lines += rl
    if ter:
        lines.append("TER")
    return lines
