"""C09 - formatting and naming options never change the computed model.

K1 (symbolic, 2-run self-composition): the real main_driver/non_trivial run
twice inside one path with the same model-affecting options and independent
formatting options; the sequences of model-affecting stage calls (with
arguments) must be identical and no formatting value may reach a model stage.
K2 (symbolic): real Biomolecule.apply_name_scheme with an arbitrary naming
scheme leaves coordinates/charges/radii/order untouched; real get_pqr_string
with and without the chain flag differs in column 22 only.
K4 (table): --neutraln/--neutralc shift the total charge by exactly -1/+1 per
chain terminus actually neutralised and change only chain-terminal residues.
"""
from __future__ import annotations

from symx import core, strs
from symx.core import And, Implies
from symx.run import Obligation
from symx.shims import patched

from . import c08, fixtures, flow

PROP = "C09"


def h_selfcomp(eng, ff, pka, ligand):
    share = {}
    fixed = dict(ff=ff, pka=pka, ligand=ligand)
    # run 1: every formatting/naming option off (baseline); run 2: all of them symbolic.
    # Equality of every variant with the baseline implies pairwise equality.
    o1 = flow.symbolic_options(eng, suffix="_1", share=share, fixed=fixed, formatting=dict(whitespace=False, keep_chain=False, include_header=False, ffout=0, pdb_output=0, apbs_input=0))
    o2 = flow.symbolic_options(eng, suffix="_2", share=share, fixed=fixed)
    eng.assume(And(o1["ph"] >= 0, o1["ph"] <= 14))
    w1 = flow.World(eng, "1", False, {}, [])
    w2 = flow.World(eng, "2", False, {}, [])
    e1 = flow.run_driver(w1, o1)
    e2 = flow.run_driver(w2, o2)
    eng.check((e1 is None) == (e2 is None), "same-outcome", note=f"run 1 {'raised ' + type(e1).__name__ if e1 else 'succeeded'}, run 2 {'raised ' + type(e2).__name__ if e2 else 'succeeded'} with options differing only in formatting/naming")
    l1, l2 = flow.model_log(w1), flow.model_log(w2)
    eng.note(f"{len(l1)} model stages; ffout={o1['ffout']}/{o2['ffout']}")
    if l1 != l2:
        diff = next((i for i, (a, b) in enumerate(zip(l1, l2)) if a != b), min(len(l1), len(l2)))
        a = l1[diff] if diff < len(l1) else None
        b = l2[diff] if diff < len(l2) else None
        eng.check(False, "same-model-stages", note=f"model-affecting stage #{diff} differs between two runs whose options differ only in formatting/naming: {a} vs {b}")
    else:
        eng.check(True, "same-model-stages")
    for w in (w1, w2):
        for name, a, k in w.raw:
            if not flow.is_model_stage(name):
                continue
            if name == "Forcefield" and "ffout" in flow.taints(a):
                continue  # the naming-scheme force field is built from --ffout by design
            t = {x for x in (flow.taints(a) | flow.taints(k)) if x in ("ffout", "pdb_output", "apbs_input", "output_pqr")}
            eng.check(not t, "no-formatting-value-reaches-model-stage", note=f"stage {name} receives a value derived from the {sorted(t)} option")
    # the atoms handed to the PQR printer are the same and in the same order
    p1 = [x for x in w1.log if x[0] == "atom.get_pqr_string"]
    p2 = [x for x in w2.log if x[0] == "atom.get_pqr_string"]
    eng.check([x[1][0] for x in p1] == [x[1][0] for x in p2], "same-atoms-printed", note="the atom lists handed to the PQR printer differ")


class _Scheme:
    """arbitrary naming scheme: per residue a symbolic choice of 'no entry',
    'residue name only', 'both names' (atoms of one residue are independent
    loop iterations; the atom-name outcome alternates concretely)"""

    def __init__(self, eng):
        self.eng = eng
        self.memo = {}
        self.asked = []

    def has_residue(self, resname):
        return resname in ("ALA", "GLY", "SER", "LYS", "WAT", "NALA", "CALA", "NGLY", "CGLY")

    def get_names(self, resname, atomname):
        self.asked.append((resname, atomname))
        if resname not in self.memo:
            self.memo[resname] = self.eng.choice(f"scheme{len(self.memo)}", 3)
        k = self.memo[resname]
        if k == 2 and len(atomname) % 2:
            return ("NEWR", None)
        return [(None, None), ("XRES", None), ("NEWR", "Q" + atomname[:3])][k]


def h_name_scheme(eng, seq):
    # ... plus a hetero group the scheme does not know, right after the last amino acid, whose atom names also occur in amino acids
    het = [fixtures.atom_line(90 + k, n, "ACT", "A", 8, 2.0 + 1.2 * k, 7.0, 1.0, record="HETATM") for k, n in enumerate(["C", "CB", "OXT", "O"])]
    bm, _ = fixtures.prepared(fixtures.peptide_lines(seq, ter=False) + het + fixtures.residue_lines("WAT", "A", 9, serial0=80, offset=(0.0, 9.0, 0.0), record="HETATM"))
    own = []
    for r in bm.residues:
        key = r.ffname if hasattr(r, "ffname") and r.name != "ACT" and getattr(r, "ffname", None) else r.name
        for a in r.atoms:
            own.append((str(key), a.name, r.name))
    before = []
    for i, a in enumerate(bm.atoms):
        a.ffcharge = 0.125 * (i % 5) - 0.25
        a.radius = 1.0 + 0.01 * i
        before.append((a, a.x, a.y, a.z, a.ffcharge, a.radius, a.residue))
    scheme = _Scheme(eng)
    bm.apply_name_scheme(scheme)
    # every atom is looked up under the name of its OWN residue
    eng.check(len(scheme.asked) == len(own), "one-lookup-per-atom")
    wrong = [(o[2], o[1], a[0]) for a, o in zip(scheme.asked, own) if a[1] == o[1] and a[0] not in (o[0], o[2])]
    eng.check(not wrong, "atom-looked-up-under-its-own-residue", note=f"apply_name_scheme asked the naming scheme about atoms under another residue's name (residue, atom, name used): {wrong[:4]}")
    after = bm.atoms
    eng.check(len(after) == len(before) and all(x is y[0] for x, y in zip(after, before)), "same-atoms-same-order", note="apply_name_scheme changed the atom list or its order")
    for a, x, y, z, q, r, res in before:
        eng.check((a.x, a.y, a.z, a.ffcharge, a.radius) == (x, y, z, q, r) and a.residue is res, "model-fields-untouched", note=f"apply_name_scheme changed a model field of atom {a.name}")


def h_chain_column(eng, focus):
    """get_pqr_string(chainflag) differs from chainflag=False in column 22 only"""
    from pdb2pqr import structures

    m = c08._model(eng, focus, 2, 3)
    for k in ("x", "y", "z"):
        if k in focus:
            eng.assume(And(m[k] > -999.9995, m[k] < 9999.9995))
    atom = structures.Atom(type_="ATOM")
    atom.serial, atom.name, atom.res_name = m["serial"], m["name"], m["res_name"]
    atom.chain_id, atom.res_seq, atom.ins_code = m["chain"], m["res_seq"], m["ins"]
    atom.x, atom.y, atom.z, atom.ffcharge, atom.radius = m["x"], m["y"], m["z"], m["charge"], m["radius"]
    with patched(*c08._patches(eng)):
        s0 = atom.get_pqr_string(chainflag=False)
        s1 = atom.get_pqr_string(chainflag=True)
    c0, c1 = strs.cells_of(s0), strs.cells_of(s1)
    eng.check(len(c0) == len(c1), "same-length")
    if len(c0) != len(c1):
        return
    conds = [strs._cell_eq(a, b) for i, (a, b) in enumerate(zip(c0, c1)) if i != 21]
    eng.check(strs._to_sb(strs._all(conds)), "differs-in-column-22-only", note=f"lines with and without the chain flag differ outside column 22: {s0!r} vs {s1!r}")


def h_whitespace_equiv(eng, focus, rtype):
    """the numbers of the --whitespace line (read as whitespace tokens) are the very texts of the plain
    line's coordinate / charge / radius fields (read by columns) - for ANY coordinate magnitude"""
    from pdb2pqr import main, structures

    m = c08._model(eng, focus, 2, 3)
    atom = structures.Atom(type_=rtype)
    atom.serial, atom.name, atom.res_name = m["serial"], m["name"], m["res_name"]
    atom.chain_id, atom.res_seq, atom.ins_code = m["chain"], m["res_seq"], m["ins"]
    atom.x, atom.y, atom.z, atom.ffcharge, atom.radius = m["x"], m["y"], m["z"], m["charge"], m["radius"]
    outs = {}
    with patched(*c08._patches(eng)):
        line = atom.get_pqr_string(chainflag=False) + "\n"
        for ws in (False, True):
            class Args:
                output_pqr = "out.pqr"
                whitespace = ws

            sink = []
            with patched((main, "open", lambda *a, **k: c08._File(sink))):
                main.print_pqr(Args, [line, "TER\n", "END"], "", None, False)
            if strs.leaked(sink):
                raise core.Inconclusive("a C-level string routine bypassed the layout-string model in the writer")
            outs[ws] = [x for x in sink if x[0:4] == "ATOM" or x[0:6] == "HETATM"]
    eng.check(len(outs[False]) == 1 and len(outs[True]) == 1, "one-line-per-atom")
    if len(outs[False]) != 1 or len(outs[True]) != 1:
        return
    plain, white = outs[False][0], outs[True][0]
    fields = [plain[30:38].strip(), plain[38:46].strip()] + plain[46:].split()
    toks = white.split()[5:]  # record, serial, atom name, residue name, residue number precede the coordinates
    same = len(toks) == len(fields) and And(*[strs._to_sb(a == b) for a, b in zip(toks, fields)])
    eng.check(same, "whitespace-numbers-are-the-plain-fields", note=f"plain line {plain!r} vs --whitespace line {white!r}: the number texts differ")


# ---------------------------------------------------------------------------
# K4: neutral termini (table lemma on the real pipeline, PARSE)
# ---------------------------------------------------------------------------

STRUCTS = {
    "tripeptide": lambda r: fixtures.peptide_lines([r, "ALA", r]),
    "two-chains": lambda r: fixtures.peptide_lines([r, "ALA", "GLY"], "A") + fixtures.peptide_lines(["SER", r], "B", origin=(0.0, 15.0, 0.0), serial0=200),
    "hidden-chain-end": lambda r: _hidden(r),
    "protonated-input-no-elements": lambda r: _protonated(r),
    # a free amino acid as its own chain (chain A is long enough for the two missing OXT atoms to stay below the 10 % repair threshold, C03-F1)
    "single-residue-chain": lambda r: fixtures.peptide_lines(["ALA", r, "ALA", "ALA", "ALA", "GLY"], "A") + fixtures.peptide_lines([r], "B", origin=(0.0, 15.0, 0.0), serial0=200),
    "with-water": lambda r: fixtures.peptide_lines([r, "ALA", r]) + fixtures.residue_lines("WAT", "A", 30, serial0=300, offset=(0.0, 9.0, 2.0), record="HETATM") + ["TER"],
}


def _protonated(r):
    """the input already carries its hydrogens (a PQR / --pdb-output file fed back in) and has no element columns"""
    lines, serial = [], 1
    for i, name in enumerate([r, "ALA", r]):
        rl = fixtures.residue_lines(name, "A", i + 1, serial, (-3.8 * i, 0.0, 0.0), heavy_only=False)
        serial += len(rl)
        lines += rl
    return [ln[:66] for ln in lines] + ["TER"]


def _hidden(r):
    first = fixtures.peptide_lines(["GLY", r, "ALA"], "A", 1, ter=False)
    ref = fixtures.pristine_definition().map["CALA"].map["OXT"]
    first.append(fixtures.atom_line(90, "OXT", "ALA", "A", 3, ref.x - 7.6, ref.y, ref.z))
    return first + fixtures.peptide_lines([r, "GLY"], "A", 11, origin=(0.0, 20.0, 0.0), serial0=100)


def _run(lines, neutraln, neutralc):
    from pdb2pqr import main

    bm, defn = fixtures.prepared(lines, neutraln=neutraln, neutralc=neutralc)
    args = fixtures.Args(ff="parse", pka_method=None, debump=True, opt=True, neutraln=neutraln, neutralc=neutralc)
    r = main.non_trivial(args, bm, None, defn, False)
    per_res = [(f"{x.name}{x.chain_id}{x.res_seq}", round(x.charge, 4), bool(getattr(x, "is_n_term", 0)), bool(getattr(x, "is_c_term", 0)), len(x.atoms), str(getattr(x, "ffname", ""))) for x in bm.residues]
    # unassigned atoms of NON-terminal residues (terminal residues may legitimately gain / lose atoms with the options)
    return per_res, len([a for a in r["missed_residues"] if not (getattr(a.residue, "is_n_term", 0) or getattr(a.residue, "is_c_term", 0))])


def table_neutral(residues, structs):
    rows = 0
    violations = []
    samples = []
    for s in structs:
        for r in residues:
            lines = STRUCTS[s](r)
            base, miss0 = _run(lines, False, False)
            nterms = sum(1 for x in base if x[2])
            cterms = sum(1 for x in base if x[3])
            for nn, nc in ((True, False), (False, True), (True, True)):
                rows += 1
                case = {"structure": s, "residue": r, "neutraln": nn, "neutralc": nc}
                try:
                    got, miss = _run(lines, nn, nc)
                except ValueError:
                    continue  # loud failure (non-integral charge): the subject of C12, not a silent model change
                shift = round(sum(x[1] for x in got) - sum(x[1] for x in base), 4)
                # termini "actually neutralised": terminal residues that ended in a NEUTRAL- state
                n_neutral = sum(1 for x in got if x[2] and x[5].startswith("NEUTRAL-N"))
                c_neutral = sum(1 for x in got if x[3] and x[5].startswith("NEUTRAL-C"))
                want = -1.0 * n_neutral + 1.0 * c_neutral
                # the option must act on every terminus the force field has a neutral form for (all but N-terminal PRO under PARSE)
                # (a residue that is both termini - a free amino acid - has one parameter set only: no neutral form for the pair)
                lazy = [x[0] for x in got if not (x[2] and x[3]) and ((nn and x[2] and not x[5].startswith("NEUTRAL-N") and not x[0].startswith("PRO")) or (nc and x[3] and not x[5].startswith("NEUTRAL-C")))]
                if lazy:
                    violations.append({"label": "terminus-neutralised", "values": case, "reproduced": True, "replay_detail": f"termini not neutralised although requested: {lazy}"})
                stray = [x[0] for x in got if (x[5].startswith("NEUTRAL-N") and not nn) or (x[5].startswith("NEUTRAL-C") and not nc)]
                if stray:
                    violations.append({"label": "terminus-neutralised", "values": case, "reproduced": True, "replay_detail": f"termini neutralised although not requested: {stray}"})
                if abs(shift - want) > 1e-3:
                    violations.append({"label": "charge-shift-per-terminus", "values": case, "reproduced": True, "replay_detail": f"total charge shifts by {shift}, expected {want} ({nterms} N-termini, {cterms} C-termini): {got}"})
                changed = [g[0] for g, b in zip(got, base) if (g[1], g[4]) != (b[1], b[4]) and not (b[2] or b[3])]
                if changed or miss != miss0:
                    violations.append({"label": "only-terminal-residues-change", "values": case, "reproduced": True, "replay_detail": f"non-terminal residues changed: {changed}; unassigned {miss0}->{miss}"})
                if len(samples) < 2:
                    samples.append({**case, "shift": shift})
    return {"table_rows": rows, "distinct": rows, "violations": violations, "samples": samples}


def h_propka_text(eng, n):
    """the structure text handed to PROPKA (real io.print_biomolecule_atoms(..., chainflag=args.keep_chain, pdbfile=True), as
    main.run_propka calls it) is the same with and without --keep-chain, for atoms whose chain ids are symbolic: the flag
    is a formatting option of the PQR file and may not reach the titration input (round 6: a TER record written in full
    under the flag made PROPKA see an extra N-terminus)"""
    from pdb2pqr import io, structures

    def atoms():
        out = []
        for k in range(n):
            a = structures.Atom(type_="ATOM" if k % 2 == 0 else "HETATM")
            a.name, a.res_name, a.res_seq, a.ins_code, a.alt_loc = f"C{k}", "ALA", 5 + k, "", ""
            a.chain_id = chains[k]
            a.x, a.y, a.z, a.ffcharge, a.radius = 1.0 + k, 2.0, 3.0, 0.25, 1.5
            a.occupancy, a.temp_factor, a.seg_id, a.element, a.charge = 1.0, 20.0, "", "C", ""
            out.append(a)
        return out

    if eng.symbolic:
        chains = [strs.sym_name(eng, f"chain{k}", 1, "ABC") for k in range(n)]
    else:
        chains = [chr(eng.int(f"chain{k}_c0")) for k in range(n)]
    from symx import rewrite

    sym = (c08._patches(eng) + rewrite.function_patches(io, "print_biomolecule_atoms") + rewrite.method_patches(structures.Atom, "get_pdb_string")) if eng.symbolic else []
    with patched(*sym):
        plain = io.print_biomolecule_atoms(atoms(), False, True)
        flagged = io.print_biomolecule_atoms(atoms(), True, True)
    if strs.leaked(plain) or strs.leaked(flagged):
        raise core.Inconclusive("layout-string model bypassed")
    eng.check(len(plain) == len(flagged), "propka-input-independent-of-keep-chain", note=f"{len(plain)} lines without --keep-chain, {len(flagged)} with it")
    if len(plain) == len(flagged):
        same = And(*[(p == f) if (isinstance(p, strs.SymStr) or isinstance(f, strs.SymStr)) else (str(p) == str(f)) for p, f in zip(plain, flagged)])
        eng.check(same, "propka-input-independent-of-keep-chain", note=f"the text handed to PROPKA differs under --keep-chain: {[str(x)[:30] for x in flagged if not isinstance(x, strs.SymStr)][:3]}")


def h_run_sequence(eng):
    """two or three runs on the SAME input path in one process (programmatic use: main_driver in a loop over option sets),
    each with or without --drop-water (selectors), through the real io.get_molecule and main.drop_water on a real
    temporary file: every run sees the records a single run with its options sees - in particular a run without
    --drop-water still has its waters after a --drop-water run (round 6: a parsed-record cache plus an in-place filter)"""
    import os
    import shutil
    import tempfile

    from pdb2pqr import io, main, pdb

    n = 2 + eng.choice("runs", 2)
    drops = [bool(eng.flag(f"drop_water_run{k}")) for k in range(n)]
    lines = [ln for ln in fixtures.peptide_lines(["ALA", "GLY"]) if not ln.startswith("END")]
    lines += [fixtures.atom_line(90 + k, "O", "HOH", "A", 50 + k, 3.0 * k, 8.0, 2.0, record="HETATM") for k in range(3)] + ["END"]
    tmp = tempfile.mkdtemp(prefix="c09-")
    try:
        path = os.path.join(tmp, "in.pdb")
        with open(path, "w") as f:
            f.write("\n".join(lines) + "\n")
        got = []
        for d in drops:
            recs, _is_cif = io.get_molecule(path)
            if d:
                recs = main.drop_water(recs)
            got.append([(r.res_name, r.res_seq, r.name) for r in recs if isinstance(r, (pdb.ATOM, pdb.HETATM))])
    finally:
        shutil.rmtree(tmp, ignore_errors=True)
    full = [(ln[17:20].strip(), int(ln[22:26]), ln[12:16].strip()) for ln in lines if ln.startswith(("ATOM", "HETATM"))]
    dry = [t for t in full if t[0] != "HOH"]
    for k, d in enumerate(drops):
        eng.check(got[k] == (dry if d else full), "each-run-sees-its-own-input", note=f"run {k + 1} of {n} (--drop-water in the runs: {drops}) worked on {len(got[k])} coordinate records, a single run with its options on {len(dry if d else full)}")


def obligations(tier):
    obs = []
    combos = [(0, 1, 0), (1, 0, 1), (2, 1, 0)] if tier == "quick" else [(f, p, l) for f in (0, 1, 2) for p in (0, 1) for l in (0, 1)]
    for ff, pka, ligand in combos:
        obs.append(Obligation(f"selfcomp-ff{ff}-pka{pka}-lig{ligand}", h_selfcomp, dict(ff=ff, pka=pka, ligand=ligand), group="selfcomp", time_cap=3000, max_paths=400000))
    for seq in (["ALA", "HIS", "GLY"],) if tier == "quick" else (["ALA", "HIS", "GLY"], ["CYS", "LYS"], ["ASP"]):
        obs.append(Obligation(f"name-scheme-{'-'.join(seq)}", h_name_scheme, dict(seq=seq), group="name-scheme", time_cap=1500, max_paths=200000))
    for focus in (["serial"], ["res_seq", "ins"], ["x", "y"], ["z", "charge"], ["name", "res_name"]):
        obs.append(Obligation(f"chain-column-{'+'.join(focus)}", h_chain_column, dict(focus=focus), group="chain-column", time_cap=1200))
    # --whitespace changes spacing only: the real print_pqr writes one line per atom for every serial / record type (C08's harness)
    for focus in (["x", "y"], ["y", "z"], ["x", "z"]) if tier == "thorough" else (["x", "y"], ["z"]):
        obs.append(Obligation(f"whitespace-equiv-{'+'.join(focus)}", h_whitespace_equiv, dict(focus=focus, rtype="ATOM"), group="whitespace-equiv", time_cap=1500))
    for rtype in ("ATOM", "HETATM"):
        obs.append(Obligation(f"whitespace-keeps-lines-{rtype}", c08.h_roundtrip, dict(focus=["serial"], rtype=rtype, ws=True, kc=False, serial_max=99999), group="roundtrip", time_cap=1200))
    # --drop-water equals deleting the water records (C07's record harness, with waters in HETATM and in ATOM records)
    from . import c07

    wk = ["water-in-atom-record", "hetatm-water", "hetatm-water-serial-10000", "hetatm-water-serial-of-another-atom", "hetatm-ligand-numbered-like-a-water", "atom-new-residue", "hetatm-ligand", "TER"]
    for k in range(len(wk)):
        obs.append(Obligation(f"drop-water-first={wk[k]}", c07.h_records, dict(nlines=3, kinds=wk, models="plain", drop=True, first=k), group="records", time_cap=1500, max_paths=100000))
    obs += c07._drop_name_obligations()  # --drop-water removes water records only (symbolic residue name)
    # a disulfide-bonded cysteine at a chain end keeps the (neutral) terminal parameter set of its position (C13's pipeline pair, PARSE)
    from . import c13

    from . import c05

    obs.append(Obligation("neutral-termini-change-terminal-residues-only", c05.h_neutral_terminus_locality, dict(ff="parse"), group="neutral-termini-symx", time_cap=1500))
    obs.append(Obligation("neutral-termini-terminal-disulfide", c13.h_pipeline_pair, dict(ff="parse"), group="neutral-termini-symx", time_cap=1500))
    res = ["ALA", "GLY", "PRO", "LYS"] if tier == "quick" else ["ALA", "ARG", "ASP", "CYS", "GLU", "GLY", "HIS", "LYS", "PRO", "SER", "TYR"]
    for s in STRUCTS:
        obs.append(Obligation(f"neutral-termini-{s}", table_neutral, dict(residues=res if s == "tripeptide" else res[:2], structs=[s]), kind="table", group="neutral-termini"))
    obs.append(Obligation("propka-text-keep-chain-n3", h_propka_text, dict(n=3), group="propka-text", time_cap=900, max_paths=100000))
    # --keep-chain changes the chain column only: the atom order does not depend on it (C08 twin/chain-order harness)
    for kc in (False, True):
        obs.append(Obligation(f"atom-order-{'kc' if kc else 'nokc'}", c08.h_atom_list_twins, dict(n=3, kc=kc), group="atom-order", time_cap=1200, max_paths=100000))
    obs.append(Obligation("run-sequence-same-path", h_run_sequence, {}, group="records", time_cap=600))
    return obs


def encoded():
    from pdb2pqr import biomolecule as biomol
    from pdb2pqr import main, structures

    return [main.main_driver, main.non_trivial, main.transform_arguments, main.print_pqr, biomol.Biomolecule.apply_name_scheme, structures.Atom.get_pqr_string, structures.Atom.get_common_string_rep, biomol.Biomolecule.set_termini, biomol.Biomolecule.assign_termini]


META = dict(
    stubs=[
        "selfcomp: the C12 recording environment (every pipeline stage a recording stub), run twice in one path",
        "name-scheme: stub force field whose get_names returns a symbolic choice per (residue, atom)",
        "chain-column: the C08 layout-string shims and rewritten writer",
    ],
    bounds=[
        "selfcomp: model-affecting flags shared symbolic booleans, formatting flags (whitespace, keep_chain, include_header) and ffout/pdb_output/apbs_input independent per run; ff x titration x ligand enumerated (quick 3 of 12 combinations)",
        "name-scheme: one tripeptide + water (thorough: three structures); per residue 3 symbolic scheme outcomes",
        "neutral termini: table lemma (exhaustive over listed rows; concrete runs of the real pipeline under PARSE on template structures incl. two chains, a hidden chain end and a water)",
    ],
    outside=[
        "byte-identity across real end-to-end runs (needs determinism, C11); the claim is that no code path lets a formatting option influence a model-affecting call",
        "(--drop-water equivalence uses C07's record-level harness, registered here as well)",
    ],
    assumptions=["stage stubs are deterministic functions of their arguments"],
    technique="2-run self-composition of the real driver on symbolic options (symx) + SMT verdict per path; layout strings for the chain column; table lemma for neutral termini",
)

MANIFEST = dict(
    text="For C09: the real main_driver/non_trivial executed twice in one symbolic path with shared model-affecting options and independent formatting/naming options (self-composition): identical model-affecting stage sequences and arguments, same atoms handed to the printer, no value derived from --ffout/--pdb-output/--apbs-input reaches a model stage; real apply_name_scheme under an arbitrary (symbolic) naming scheme leaves coordinates, charges, radii and order untouched; real get_pqr_string with/without the chain flag differs in column 22 only for all field values; the number texts of the --whitespace line (tokens) equal the plain line's column fields for coordinates of ANY magnitude in (-1e5, 1e5); neutral-termini charge shifts as a table lemma on the real pipeline. Round 4: a free amino acid as its own chain in the neutral-termini table; the symbolic-residue-name --drop-water obligation of C07. Round 5: every atom is looked up in the naming scheme under its own residue name (hetero group after the peptide); a disulfide-bonded cysteine at a chain end keeps the terminal parameter set of its position (C13 pipeline pair under PARSE).",
    note="Trusted: z3, symx, stage stubs deterministic in their arguments. 'Byte-identical across real runs' additionally needs determinism (C11, not applicable). The neutral-termini part is an exhaustive table on template structures, not symbolic.",
    technique="self-composition + symbolic execution of real code (symx) + SMT verdict per path; table lemma for neutral termini",
    design="DESIGN.md section 3 C09",
)
