"""C05 - atoms added by pdb2pqr have template-consistent bonded geometry.

K1: real Amino.rebuild_tetrahedral / Residue.rotate_tetrahedral on symbolic
coordinates (two- and three-bond branches): the new hydrogen keeps the parent
distance and the angle to the parent-next bond of the hydrogen it is rotated
from, does not land on an existing hydrogen, and the existing hydrogens end
where they started.
K2: torsion moves carry hydrogens with their parents (C04's classification
applied to every bond that involves a hydrogen).
K3: the peptide neighbour pointers used to pick the three reference atoms are
cleared on BOTH sides of a chain break, for all C-N distances.
Superposition algebra itself: C15.
"""
from __future__ import annotations

import z3

from symx import core, lemma, shims
from symx.core import And, Implies, Not
from symx.run import Obligation
from symx.shims import patched

from . import c04, fixtures

PROP = "C05"


def _dot(a, b):
    return sum((x * y for x, y in zip(a, b)), 0)


def _sub(a, b):
    return [a[k] - b[k] for k in range(3)]


def run_tetrahedral(resname, parent, branch, h1_at, input_h=False):
    """branch 2: one hydrogen present, add the second.  branch 3: two present,
    add the third; h1_at says where the second existing hydrogen sits relative
    to the first: '+120' or '+240' (exactly, as produced by pdb2pqr itself or
    by any ideal input)."""
    import math

    from pdb2pqr import quatfit, utilities

    out = {"lemma_queries": {"sat": 0, "unsat": 0, "unknown": 0}, "lemma_solver_s": 0.0, "distinct": 0, "violations": [], "inconclusive": [], "samples": []}
    bm, _ = fixtures.prepared(fixtures.peptide_lines(["ALA", resname, "ALA"]))
    bm.add_hydrogens()
    res = bm.residues[1]
    par = res.get_atom(parent)
    hs = [a for a in par.bonds if a.is_hydrogen]
    nxt = [a for a in par.bonds if not a.is_hydrogen][0]
    assert len(hs) == 3, (resname, parent, [a.name for a in hs])
    # keep hs[0] (branch 2) or hs[0], hs[1] (branch 3); the hydrogen to add is the last one
    target = hs[2].name
    for h in hs[1:] if branch == 2 else hs[2:]:
        res.remove_atom(h.name)
    if input_h:
        # the hydrogens already present came with the input (a partly protonated structure), not from pdb2pqr
        for a in res.atoms:
            if a.is_hydrogen:
                a.added = 0
    case = {"residue": resname, "parent": parent, "branch": branch, "second_hydrogen_at": h1_at, "present_hydrogens_from_input": input_h}
    with lemma.Session() as S:
        s3 = S.real("sqrt3half")
        S.assume(s3 > 0)
        S.assume(s3 * s3 == core.SymReal(z3.RealVal("3/4")))
        # axis parameterisation: parent = next + L*u, |u| = 1, L > 0; normalize(parent - next) -> u
        u = [S.real(f"u{k}") for k in range(3)]
        S.assume(_dot(u, u) == 1)
        L = S.real("L")
        S.assume(L > 0)
        for a in (nxt, hs[0]):
            a.x, a.y, a.z = (S.real(f"{a.name}_{k}") for k in "xyz")
        par.x, par.y, par.z = (nxt.coords[k] + L * u[k] for k in range(3))
        P, N, H0 = par.coords, nxt.coords, hs[0].coords

        def norm(v):
            return list(u)

        def cos_(x):
            if abs(abs(x) - 2 * math.pi / 3) < 1e-9:
                return core.SymReal(z3.RealVal("-1/2"))
            raise core.Inconclusive(f"angle {x}")

        def sin_(x):
            if abs(x - 2 * math.pi / 3) < 1e-9:
                return s3
            if abs(x + 2 * math.pi / 3) < 1e-9:
                return -s3
            raise core.Inconclusive(f"angle {x}")

        math_q = type("M", (), {"pi": math.pi, "cos": staticmethod(cos_), "sin": staticmethod(sin_)})
        # geometry of the axis: unit vector from next atom to parent
        w0 = list(u)
        rel = _sub(H0, N)

        def rot(p, sgn):
            c = core.SymReal(z3.RealVal("-1/2"))
            sn = s3 * sgn
            up = _dot(w0, p)
            ux = [w0[1] * p[2] - w0[2] * p[1], w0[2] * p[0] - w0[0] * p[2], w0[0] * p[1] - w0[1] * p[0]]
            return [c * p[k] + sn * ux[k] + (1 - c) * up * w0[k] for k in range(3)]

        c1 = [N[k] + rot(rel, 1)[k] for k in range(3)]  # +120
        c2 = [N[k] + rot(rel, -1)[k] for k in range(3)]  # +240 = -120
        if branch == 3:
            pos = c1 if h1_at == "+120" else c2
            hs[1].x, hs[1].y, hs[1].z = pos
        perp2 = _dot(_sub(H0, P), _sub(H0, P)) - _dot(w0, _sub(H0, P)) * _dot(w0, _sub(H0, P))
        S.assume(perp2 >= core.SymReal(z3.RealVal("1/4")))  # the hydrogen is at least 0.5 A off the axis (non-degenerate)
        before = {a.name: list(a.coords) for a in res.atoms if a in (par, nxt, hs[0], hs[1])}
        branch_hit = []
        real_branch = S.eng.branch

        def decide(cond):
            # util.distance(...) > 0.1: decided by the solver under the assumptions (no forking in a lemma)
            s = z3.Solver()
            s.set("timeout", 30000)
            s.add(*S.constraints())
            s.add(cond)
            a = str(s.check())
            s2 = z3.Solver()
            s2.set("timeout", 30000)
            s2.add(*S.constraints())
            s2.add(z3.Not(cond))
            b = str(s2.check())
            branch_hit.append((a, b))
            if a == "sat" and b == "unsat":
                return True
            if a == "unsat" and b == "sat":
                return False
            raise core.Inconclusive(f"branch not determined by the assumptions ({a}/{b}): {str(cond)[:120]}")

        S.eng.branch = decide

        def same_point(a, b):
            """solver: are the two points identical under the assumptions? (three polynomial identities)"""
            r = lemma.prove(S.constraints(), [(f"eq{k}", core.to_real_term(a[k]) == core.to_real_term(b[k])) for k in range(3)], timeout_s=20, cross_check=False)
            if r["inconclusive"]:
                raise core.Inconclusive("point identity undecided")
            return not r["refuted"]

        class SqDist:
            """distance between an existing hydrogen and a candidate position, decided structurally:
            both are one of the two ideal positions c1/c2 (checked by the solver), whose separation
            is sqrt(3)*perp >= 0.866 A (lemma goal below)"""

            def __init__(self, a, b):
                self.a, self.b = a, b

            def _far(self):
                sp = lambda p, q: all(x is y for x, y in zip(p, q)) if branch == 3 else same_point(p, q)
                pa = next((i for i, sl in enumerate(slots) if sp(self.a, sl)), None)
                pb = next((i for i, sl in enumerate(slots) if sp(self.b, sl)), None)
                if pa is None or pb is None:
                    raise core.Inconclusive("distance between points that are not the ideal tetrahedral positions")
                branch_hit.append((pa, pb))
                return pa != pb

            def __gt__(self, c):
                if not (0 < c < 0.8):
                    raise core.Inconclusive(f"distance threshold {c}")
                return self._far()

            def __lt__(self, c):
                return not self.__gt__(c)

            __ge__ = __gt__
            __le__ = __lt__

        from pdb2pqr import aa as aa_mod

        class UtilSq:
            def __getattr__(self, name):
                return getattr(utilities, name)

            @staticmethod
            def distance(a, b):
                return SqDist(list(a), list(b))

        slots = [list(H0), list(c1), list(c2)]
        slot_of = {}
        if branch == 3:
            slot_of = {hs[0].name: 0, hs[1].name: 1 if h1_at == "+120" else 2}

        def cycle(atom1, atom2, angle):
            """three-bond branch: the rotation is abstracted to the exact 3-cycle of the ideal
            positions H0 -> +120 -> +240 -> H0 (what the real rotation does to them: Rodrigues
            lemma; the real rotate_tetrahedral itself is executed in the two-bond branch)"""
            step = {120: 1, -120: 2, 240: 2, -240: 1}.get(int(angle))
            if step is None or atom1 is not nxt or atom2 is not par:
                raise core.Inconclusive(f"rotate_tetrahedral({atom1.name},{atom2.name},{angle})")
            for a in atom2.bonds:
                if a is atom1:
                    continue
                slot_of[a.name] = (slot_of[a.name] + step) % 3
                a.x, a.y, a.z = slots[slot_of[a.name]]

        def same_point(a, b):  # noqa: F811 - identity of the ideal-position terms
            return all(x is y for x, y in zip(a, b))

        extra = [(type(res), "rotate_tetrahedral", staticmethod(cycle))] if branch == 3 else []
        with patched((quatfit, "math", math_q), (quatfit, "normalize", norm), (utilities, "np", shims.NP), (utilities, "math", shims.MATH), (aa_mod, "util", UtilSq()), *extra):
            try:
                ok = res.rebuild_tetrahedral(target)
            except core.Inconclusive as e:
                out["inconclusive"].append(f"{case}: {e}")
                return out
        if not ok or not res.has_atom(target):
            out["violations"].append({"label": "hydrogen-added", "values": case, "note": "", "reproduced": True, "replay_detail": f"rebuild_tetrahedral did not add {target}"})
            return out
        new = res.get_atom(target).coords
        goals = []
        dn, d0 = _sub(new, P), _sub(H0, P)
        goals.append(("same distance to the parent as the hydrogen it was rotated from", _dot(dn, dn), _dot(d0, d0)))
        goals.append(("same angle to the parent-next bond", _dot(dn, w0), _dot(d0, w0)))
        for nm, o in before.items():
            cur = res.get_atom(nm).coords
            for k in range(3):
                goals.append((f"existing atom {nm} ends where it started [{k}]", cur[k], o[k]))
        sep = _sub(c1, c2)
        goals.append(("the two ideal positions are sqrt(3)*perp apart (so never within 0.1 A)", _dot(sep, sep), 3 * perp2))
        want = None
        if branch == 2:
            want = c1
        else:
            want = c2 if h1_at == "+120" else c1  # the free position
        for k in range(3):
            goals.append((f"placed at the free tetrahedral position [{k}]", new[k], want[k]))
        constraints = S.constraints()
    res_ = lemma.prove(constraints, [(lab, core.to_real_term(l) == core.to_real_term(r)) for lab, l, r in goals], timeout_s=60, cross_check=True)
    out["lemma_queries"] = res_["queries"]
    out["lemma_solver_s"] = res_["solver_s"]
    out["distinct"] = len(goals)
    out["inconclusive"] += res_["inconclusive"]
    out["samples"].append({**case, "goals": [g[0] for g in goals[:3]]})
    if res_["refuted"]:
        demo = _tetra_demo(resname, parent, branch, h1_at, input_h)
        lab = res_["refuted"][0]["label"]
        if demo is not None and demo[0]:
            out["violations"].append({"label": "tetrahedral-placement", "values": {**case, "goal": lab}, "note": "", "reproduced": True, "replay_detail": demo[1]})
        else:
            out["inconclusive"].append(f"{case}: lemma '{lab}' refuted but the concrete replay shows a valid placement ({demo})")
    return out


def _tetra_demo(resname, parent, branch, h1_at, input_h=False):
    """concrete replay: remove hydrogens of the group, let the real code re-add
    them, measure distances"""
    from pdb2pqr import utilities

    bm, _ = fixtures.prepared(fixtures.peptide_lines(["ALA", resname, "ALA"]))
    bm.add_hydrogens()
    res = bm.residues[1]
    par = res.get_atom(parent)
    hs = [a for a in par.bonds if a.is_hydrogen]
    target = hs[2].name
    if branch == 2:
        for h in hs[1:]:
            res.remove_atom(h.name)
    else:
        # put the second hydrogen at the requested ideal position by swapping names if needed
        keep_second = hs[1] if h1_at == "+120" else hs[2]
        drop = hs[2] if h1_at == "+120" else hs[1]
        target = drop.name
        res.remove_atom(drop.name)
    if input_h:
        for a in res.atoms:
            if a.is_hydrogen:
                a.added = 0
    res.rebuild_tetrahedral(target)
    new = res.get_atom(target)
    if new is None:
        return True, f"{target} was not added"
    others = [a for a in res.atoms if a is not new]
    dmin, who = min((utilities.distance(new.coords, a.coords), a.name) for a in others)
    dpar = utilities.distance(new.coords, par.coords)
    bad = dmin < 0.5 or abs(dpar - utilities.distance(hs[0].coords, par.coords)) > 1e-3
    return bad, f"{target} placed {dmin:.3f} A from {who}, {dpar:.3f} A from its parent {parent}"


# ---------------------------------------------------------------------------
# K3: peptide neighbour pointers across chain breaks
# ---------------------------------------------------------------------------


def h_gap_pointers(eng, n):
    """real Biomolecule.update_bonds with the C(i)-N(i+1) distances symbolic"""
    from pdb2pqr import biomolecule as biomol

    bm, _ = fixtures.biomolecule(fixtures.peptide_lines(["ALA", "SER", "GLY", "ALA"][:n]))
    bm.set_termini()
    d = [eng.real(f"d{i}") for i in range(n - 1)]
    for x in d:
        eng.assume(x > 0)
    pairs = {}
    res = bm.residues
    for i in range(n - 1):
        pairs[(tuple(res[i].get_atom("C").coords), tuple(res[i + 1].get_atom("N").coords))] = d[i]
    real = biomol.util.distance

    def distance(a, b):
        key = (tuple(a), tuple(b))
        if key in pairs:
            return pairs[key]
        if key[::-1] in pairs:
            return pairs[key[::-1]]
        return real(a, b)

    class U:
        def __getattr__(self, name):
            return getattr(biomol.util, name)

    u = U()
    u.distance = distance
    with patched((biomol, "util", u)):
        bm.update_bonds()
    LIMIT = 1.7  # PEPTIDE_DIST as documented in config
    for i in range(n - 1):
        broken = d[i] > LIMIT
        c_i, n_next = res[i].get_atom("C"), res[i + 1].get_atom("N")
        eng.check(Implies(broken, res[i].peptide_n is None and res[i + 1].peptide_c is None), "gap-clears-both-pointers", note=f"C-N distance above {LIMIT} A between residues {i} and {i + 1}: peptide_n of residue {i} = {getattr(res[i].peptide_n, 'name', None)}, peptide_c of residue {i + 1} = {getattr(res[i + 1].peptide_c, 'name', None)} (a stale pointer becomes a far-away reference atom for the three-point superposition)")
        eng.check(Implies(Not(broken), res[i].peptide_n is n_next and res[i + 1].peptide_c is c_i), "bonded-neighbours-linked", note=f"residues {i},{i + 1} bonded but pointers are not the neighbouring N / C atoms")
    eng.check(res[0].peptide_c is None and res[n - 1].peptide_n is None, "chain-ends-have-no-neighbour")


# ---------------------------------------------------------------------------
# K1b: the occupancy test of Optimize.get_position_with_three_bonds (round 6: the seed
# C05-threebonds-free-test-rot1 was missed because the site harness turns that test into a selector)
# ---------------------------------------------------------------------------


def h_three_bond_free_position(eng, resname, oxygen):
    """real Optimize.get_position_with_three_bonds on a hydroxyl oxygen that carries its anchor and two
    substituents.  The three tetrahedral sites are tied together by the 120-degree turns: rotate_tetrahedral is
    the exact 3-cycle of the ideal positions (justified by the Rodrigues lemma and the two-bond identities, as in
    the three-bond branch of rebuild_tetrahedral); the distance between two different sites is one symbolic real
    `sep` > 0.1 (sqrt(3) x the distance of the substituent from the axis), between a site and itself 0.  Which
    site the second substituent occupies and the order of the two in the bond list are selectors.  The replay
    builds the ideal sites concretely with the real rotate_tetrahedral and calls the unshimmed function."""
    from pdb2pqr import utilities
    from pdb2pqr.hydrogens import optimize

    bm, res = c04._setup(resname, "internal", False)
    o = res.get_atom(oxygen)
    anchor = o.bonds[0]
    hyd = [a for a in o.bonds if a.is_hydrogen][0]
    occupied = 1 + eng.choice("second_substituent_site", 2)  # site 1 (+120) or site 2 (+240) relative to the first substituent
    h_first = eng.flag("hydrogen_listed_before_lone_pair")
    sep = eng.real("site_separation")
    eng.assume(sep > 0.1)
    res.create_atom("LP1", [o.x + 0.5, o.y - 0.6, o.z + 0.4])
    lp = res.get_atom("LP1")
    lp.bonds.append(o)
    first, second = (hyd, lp) if h_first else (lp, hyd)
    o.bonds[:] = [anchor, first, second]
    case = f"{resname} {oxygen} bonds [{anchor.name}, {first.name}, {second.name}], {second.name} at the {'+120' if occupied == 1 else '+240'} site"
    if eng.symbolic:
        site_xyz = [[eng.fresh_real(f"s{i}{c}") for c in "xyz"] for i in range(3)]
        site_of = {first.name: 0, second.name: occupied}

        def put(a):
            a.x, a.y, a.z = site_xyz[site_of[a.name]]

        put(first)
        put(second)

        def cycle(atom1, atom2, angle):
            step = {120: 1, -240: 1, 240: 2, -120: 2}.get(int(angle))
            if step is None or atom1 is not anchor or atom2 is not o:
                raise core.Inconclusive(f"rotate_tetrahedral({atom1.name},{atom2.name},{angle})")
            for a in atom2.bonds:
                if a is not atom1:
                    site_of[a.name] = (site_of[a.name] + step) % 3
                    put(a)

        def site_index(p):
            for i, s_ in enumerate(site_xyz):
                if all(x is y for x, y in zip(p, s_)):
                    return i
            raise core.Inconclusive("distance asked for a point that is not one of the three ideal sites")

        class U:
            def __getattr__(self, name):
                return getattr(utilities, name)

            @staticmethod
            def distance(a, b):
                return 0.0 if site_index(list(a)) == site_index(list(b)) else sep

        with patched((type(res), "rotate_tetrahedral", staticmethod(cycle)), (optimize, "util", U())):
            got = optimize.Optimize.get_position_with_three_bonds(o)
        gi = site_index(list(got))
        free = ({0, 1, 2} - {0, occupied}).pop()
        eng.check(gi == free, "three-bond-position-is-the-free-site", note=f"{case}: the returned position is site {gi} (0 = first substituent, {occupied} = second), the free site is {free}")
        eng.check(site_of[first.name] == 0 and site_of[second.name] == occupied, "substituents-end-where-they-started", note=f"{case}: after the search the substituents sit at sites {site_of}")
    else:
        # concrete: ideal sites from the hydrogen's own position by the real rotation
        p0 = list(hyd.coords)
        sites = [p0]
        o.bonds[:] = [anchor, hyd]
        for _ in range(2):
            res.rotate_tetrahedral(anchor, o, 120)
            sites.append(list(hyd.coords))
        res.rotate_tetrahedral(anchor, o, 120)
        o.bonds[:] = [anchor, first, second]
        first.x, first.y, first.z = sites[0]
        second.x, second.y, second.z = sites[occupied]
        got = optimize.Optimize.get_position_with_three_bonds(o)
        d = [float(utilities.distance(got, s_)) for s_ in sites]
        free = ({0, 1, 2} - {0, occupied}).pop()
        eng.check(d[free] < 1e-3, "three-bond-position-is-the-free-site", note=f"{case}: distances of the returned position to the three sites {[round(x, 3) for x in d]}, the free site is {free}")
        eng.check(float(utilities.distance(first.coords, sites[0])) < 1e-3 and float(utilities.distance(second.coords, sites[occupied])) < 1e-3, "substituents-end-where-they-started", note=case)


# ---------------------------------------------------------------------------
# K3b: pairing of structure atoms with template atoms in the three-point superposition
# ---------------------------------------------------------------------------


def h_reference_pairs(eng, resname, position):
    """real repair_heavy + add_hydrogens with symbolic 'missing' selectors; every call of
    quat.find_coordinates must pair each structure atom with the template atom of the SAME
    identity (own atoms by name, the neighbouring residues' N / C as N+1 / C-1), all of them
    within the residue's template bond network"""
    from pdb2pqr import biomolecule as biomol

    idx = {"nterm": 0, "internal": 1, "cterm": 2}[position]
    heavy = [n for n in fixtures.pristine_definition().map[resname].map if not n.startswith("H")]
    missing = [n for n in heavy if eng.flag(f"missing_{n}")]
    eng.assume(len(missing) <= 1 or False) if False else None
    if len(missing) > 2:
        eng.assume(False)
    seq = ["ALA", "GLY", "ALA", "SER"]
    seq[idx if idx < 2 else 3] = resname
    pos = idx if idx < 2 else 3
    lines = fixtures.peptide_lines(seq, omit={pos: missing})
    bm, _ = fixtures.prepared(lines)
    res = bm.residues[pos]
    calls = []
    real = biomol.quat.find_coordinates

    def spy(n, coords, refcoords, refatomcoords):
        calls.append(([tuple(c) for c in coords], [tuple(c) for c in refcoords], tuple(refatomcoords)))
        return real(n, coords, refcoords, refatomcoords)

    class Q:
        def __getattr__(self, name):
            return getattr(biomol.quat, name)

    q = Q()
    q.find_coordinates = spy
    with patched((biomol, "quat", q)):
        try:
            if bm.num_missing_heavy:
                bm.repair_heavy()
            bm.add_hydrogens()
        except ValueError:
            eng.check(True, "loud-failure-tolerated")
            return
    eng.note(f"missing={missing}: {len(calls)} superpositions")
    for r in bm.residues:
        ref = r.reference.map if hasattr(r, "reference") and r.reference is not None else {}
        ident = {}
        for a in r.atoms:
            ident[tuple(a.coords)] = a.name
        if getattr(r, "peptide_n", None) is not None:
            ident[tuple(r.peptide_n.coords)] = "N+1"
        if getattr(r, "peptide_c", None) is not None:
            ident[tuple(r.peptide_c.coords)] = "C-1"
        tmpl = {tuple(a.coords): n for n, a in ref.items()}
        for coords, refcoords, target in calls:
            if target not in tmpl or any(c not in ident for c in coords):
                continue  # a call that belongs to another residue
            for c, rc in zip(coords, refcoords):
                want = ident[c]
                got = tmpl.get(rc)
                eng.check(got == want, "structure-atom-paired-with-its-own-template-atom", note=f"{r} placing {tmpl[target]}: structure atom {want} is superposed on template atom {got} (missing={missing})")


# ---------------------------------------------------------------------------
# K4: geometry of every added hydrogen after the real pipeline (carboxylic acids, alcohols, amides)
# ---------------------------------------------------------------------------


def h_added_geometry(eng, resname, ff):
    """ALA-X-ALA with X named as a protonated acid (ASH/GLH) or another optimisable residue, one
    carboxyl/side-chain bond optionally stretched (selector), options symbolic: after the real
    pipeline every hydrogen sits at its template bond length from the parent atom its topology names"""
    from pdb2pqr import main, utilities

    base = {"ASH": "ASP", "GLH": "GLU"}.get(resname, resname)
    lines = fixtures.peptide_lines(["ALA", base, "ALA"])
    stretch = eng.choice("stretched_atom", 3)  # 0 none, 1 / 2: the first / second terminal oxygen (or heavy atom) is 0.1 A further out
    opt = eng.flag("opt")
    debump = eng.flag("debump")
    ref = fixtures.pristine_definition().map[base]
    ends = [n for n in ref.map if not n.startswith("H") and len([b for b in ref.map[n].bonds if not b.startswith("H")]) == 1 and n not in ("O", "OXT")]
    out = []
    for ln in lines:
        if ln.startswith("ATOM") and int(ln[22:26]) == 2:
            ln = ln[:17] + f"{resname:>3s}" + ln[20:]
            name = ln[12:16].strip()
            if stretch and len(ends) >= stretch and name == ends[stretch - 1]:
                par = ref.map[ref.map[name].bonds[0]]
                a = ref.map[name]
                v = [a.x - par.x, a.y - par.y, a.z - par.z]
                L = sum(x * x for x in v) ** 0.5
                x, y, z = (float(ln[30:38]) + 0.1 * v[0] / L, float(ln[38:46]) + 0.1 * v[1] / L, float(ln[46:54]) + 0.1 * v[2] / L)
                ln = ln[:30] + f"{x:8.3f}{y:8.3f}{z:8.3f}" + ln[54:]
        out.append(ln)
    try:
        bm, defn = fixtures.prepared(out)
        args = fixtures.Args(ff=ff, pka_method=None, debump=debump, opt=opt)
        main.non_trivial(args, bm, None, defn, False)
    except (ValueError, KeyError, TypeError, AttributeError) as e:
        eng.check(True, "loud-failure-tolerated", note=type(e).__name__)
        return
    eng.note(f"{resname} stretched={ends[stretch - 1] if stretch and len(ends) >= stretch else None} opt={opt} debump={debump}")
    for r in bm.residues:
        if not hasattr(r, "reference") or r.reference is None:
            continue
        for a in r.atoms:
            if not a.is_hydrogen or a.name not in r.reference.map:
                continue
            t = r.reference.map[a.name]
            pname = t.bonds[0]
            p = r.get_atom(pname)
            if p is None or pname not in r.reference.map:
                continue
            if pname == "N":
                continue  # amide hydrogens are fitted across the peptide bond: their geometry inherits the (synthetic) inter-residue geometry of the fixture
            d = utilities.distance(a.coords, p.coords)
            dt = utilities.distance(t.coords, r.reference.map[pname].coords)
            eng.check(bool(abs(d - dt) < 0.12), "hydrogen-at-template-distance-from-its-topology-parent", note=f"{r} {a.name}: {d:.2f} A from {pname} (template {dt:.2f} A); stretched={ends[stretch - 1] if stretch and len(ends) >= stretch else None} opt={opt}")
            others = [(utilities.distance(a.coords, o.coords), o.name) for o in r.atoms if o is not a]
            dmin, who = min(others)
            eng.check(bool(dmin > 0.5), "no-coincident-atoms", note=f"{r} {a.name} is {dmin:.2f} A from {who}")


AMINO20 = ["ALA", "ARG", "ASN", "ASP", "CYS", "GLN", "GLU", "GLY", "HIS", "ILE", "LEU", "LYS", "MET", "PHE", "PRO", "SER", "THR", "TRP", "TYR", "VAL"]


def h_added_geometry_terminal(eng, ff, position):
    """every residue type as the first / last residue of a chain (selector), options symbolic: hydrogens at template
    distance from the parent their topology names (also the terminal -NH3+ / -NH2 hydrogens), no coincident atoms, and
    no INPUT heavy atom displaced by hydrogen building (with --nodebump --noopt nothing else may move them)"""
    from pdb2pqr import main, utilities

    resname = AMINO20[eng.choice("residue", len(AMINO20))]
    opt, debump = eng.flag("opt"), eng.flag("debump")
    seq = ["ALA", "ALA", "ALA"]
    idx = 0 if position == "nterm" else 2
    seq[idx] = resname
    lines = fixtures.peptide_lines(seq)
    inputs = {(int(ln[22:26]), ln[12:16].strip()): (float(ln[30:38]), float(ln[38:46]), float(ln[46:54])) for ln in lines if ln.startswith("ATOM")}
    try:
        bm, defn = fixtures.prepared(lines)
        main.non_trivial(fixtures.Args(ff=ff, pka_method=None, debump=debump, opt=opt), bm, None, defn, False)
    except (ValueError, KeyError, TypeError, AttributeError) as e:
        eng.check(True, "loud-failure-tolerated", note=type(e).__name__)
        return
    r = bm.residues[idx]
    for a in r.atoms:
        if a.is_hydrogen and a.name in r.reference.map:
            t = r.reference.map[a.name]
            pname = t.bonds[0]
            p = r.get_atom(pname)
            if p is None or pname not in r.reference.map or (pname == "N" and a.name == "H"):
                continue  # the amide H is fitted across the peptide bond of the synthetic fixture
            d = utilities.distance(a.coords, p.coords)
            dt = utilities.distance(t.coords, r.reference.map[pname].coords)
            eng.check(bool(abs(d - dt) < 0.12), "hydrogen-at-template-distance-from-its-topology-parent", note=f"{position} {r} {a.name}: {d:.2f} A from {pname} (template {dt:.2f} A); opt={opt} debump={debump}")
            dmin, who = min((utilities.distance(a.coords, o.coords), o.name) for o in r.atoms if o is not a)
            eng.check(bool(dmin > 0.5), "no-coincident-atoms", note=f"{r} {a.name} is {dmin:.2f} A from {who}")
    if not opt and not debump:
        moved = [(k, round(utilities.distance(bm.residues[k[0] - 1].get_atom(k[1]).coords, xyz), 2)) for k, xyz in inputs.items() if bm.residues[k[0] - 1].has_atom(k[1]) and utilities.distance(bm.residues[k[0] - 1].get_atom(k[1]).coords, xyz) > 0.002]
        eng.check(not moved, "input-heavy-atoms-not-displaced-by-hydrogen-building", note=f"{position} {resname}: input atoms moved although debumping and optimisation are off: {moved[:4]}")


def h_partly_protonated_terminus(eng, ff):
    """an input that already carries hydrogens, with the N-terminal ammonium group only partly protonated (one of H, H2,
    H3 absent - selector; residue type - selector): the real pipeline puts the missing hydrogen on the vacant tetrahedral
    site - at template distance from N and not on top of a hydrogen that is already there (round 7: input hydrogens that
    were not listed among N's bonds made the completion ignore them)"""
    from pdb2pqr import main, utilities

    resname = ["ALA", "SER", "LEU", "GLY"][eng.choice("residue", 4)]
    gone = ["H", "H2", "H3"][eng.choice("absent_hydrogen", 3)]
    opt = eng.flag("opt")
    seq = [resname, "ALA", "ALA"]
    bm0, defn0 = fixtures.prepared(fixtures.peptide_lines(seq))
    main.non_trivial(fixtures.Args(ff=ff, pka_method=None, debump=False, opt=False), bm0, None, defn0, False)
    lines, serial = [], 1
    for r in bm0.residues:
        for a in r.atoms:
            if r is bm0.residues[0] and a.name == gone:
                continue
            lines.append(fixtures.atom_line(serial, a.name, r.name, "A", r.res_seq, a.x, a.y, a.z, element="H" if a.is_hydrogen else a.name[0]))
            serial += 1
    lines += ["TER", "END"]
    try:
        bm, defn = fixtures.prepared(lines)
        main.non_trivial(fixtures.Args(ff=ff, pka_method=None, debump=False, opt=opt), bm, None, defn, False)
    except (ValueError, KeyError, TypeError, AttributeError) as e:
        eng.check(True, "loud-failure-tolerated", note=type(e).__name__)
        return
    r = bm.residues[0]
    n = r.get_atom("N")
    hs = [a for a in r.atoms if a.name in ("H", "H2", "H3")]
    eng.check(len(hs) == 3, "terminal-hydrogens-complete", note=f"N-terminal {resname} given without {gone}: hydrogens on N after the run {[a.name for a in hs]}")
    for a in hs:
        d = utilities.distance(a.coords, n.coords)
        eng.check(bool(abs(d - 1.01) < 0.12), "hydrogen-at-template-distance-from-its-topology-parent", note=f"N-terminal {resname} given without {gone}: {a.name} is {d:.2f} A from N")
        for b in hs:
            if b is not a:
                dd = utilities.distance(a.coords, b.coords)
                eng.check(bool(dd > 1.2), "no-coincident-atoms", note=f"N-terminal {resname} given without {gone}: {a.name} and {b.name} are {dd:.2f} A apart (tetrahedral sites are 1.6-1.7 A apart)")


def h_nucleic_repair(eng, ff):
    """a DNA / RNA strand whose phosphate oxygens carry the current wwPDB names OP1/OP2 or the old O1P/O2P (selector), with
    one heavy atom of the middle nucleotide absent from the input or none (selector): after the real pipeline no two atoms
    of a residue coincide (a phosphate oxygen rebuilt from the template on top of the one already there under its other
    name), every atom has an atom of its residue at bonding distance"""
    from pdb2pqr import main, utilities

    kind = eng.choice("strand", 2)
    seq = [["DA", "DT", "DG"], ["RA", "RU", "RC"]][kind]
    new_names = eng.flag("phosphate_oxygens_named_OP1_OP2")
    gone = [None, "N3", "C5'", "O4'"][eng.choice("atom_absent_from_middle_nucleotide", 4)]
    lines = []
    for ln in fixtures.nucleic_lines(seq):
        if ln.startswith(("ATOM", "HETATM")):
            name = ln[12:16].strip()
            if gone and int(ln[22:26]) == 2 and name == gone:
                continue
            if new_names and name in ("O1P", "O2P"):
                ln = ln[:12] + {"O1P": " OP1", "O2P": " OP2"}[name] + ln[16:]
        lines.append(ln)
    try:
        bm, defn = fixtures.prepared(lines)
        res = main.non_trivial(fixtures.Args(ff=ff, pka_method=None, debump=True, opt=True), bm, None, defn, False)
    except (ValueError, KeyError, TypeError, AttributeError, IndexError) as e:
        eng.check(False, "strand-processed", note=f"{seq} (OP1/OP2 names: {new_names}, without {gone}): {type(e).__name__}: {str(e)[:100]}")
        return
    # (whether every atom finds parameters is C01/C12's claim: a 5'-terminal phosphate named OP1/OP2 is kept and reported unassigned by the pinned code)
    for r in bm.residues:
        for a in r.atoms:
            dmin, who = min((float(utilities.distance(a.coords, o.coords)), o.name) for o in r.atoms if o is not a)
            eng.check(bool(dmin > 0.5), "no-coincident-atoms", note=f"{seq} (OP1/OP2 names: {new_names}, without {gone}): {r} {a.name} is {dmin:.3f} A from {who}")
            eng.check(bool(dmin < 1.95), "atom-attached-to-its-residue", note=f"{seq} (OP1/OP2 names: {new_names}, without {gone}): {r} {a.name} has no atom of its residue within 1.95 A (nearest {who} at {dmin:.2f} A)")


def h_neutral_terminus_locality(eng, ff="parse"):
    """--neutraln / --neutralc rebuild hydrogens of the terminal residues only: every atom of every NON-terminal
    residue - in particular the amide H of a later residue of the same type as the terminal one - is placed exactly
    where the run without the option places it (two real runs, residue type and options selectors)"""
    from pdb2pqr import main

    resname = AMINO20[eng.choice("residue", len(AMINO20))]
    nn, nc = eng.flag("neutraln"), eng.flag("neutralc")
    seq = [resname, "ALA", resname, "GLY", resname]
    lines = fixtures.peptide_lines(seq)
    runs = []
    for a, b in ((False, False), (bool(nn), bool(nc))):
        try:
            bm, defn = fixtures.prepared(lines, neutraln=a, neutralc=b)
            main.non_trivial(fixtures.Args(ff=ff, pka_method=None, debump=False, opt=False, neutraln=a, neutralc=b), bm, None, defn, False)
        except (ValueError, KeyError) as e:
            eng.check(True, "loud-failure-tolerated", note=type(e).__name__)
            return
        runs.append({(r.res_seq, x.name): (round(x.x, 3), round(x.y, 3), round(x.z, 3)) for r in bm.residues[1:-1] for x in r.atoms})
    diff = sorted(k for k in set(runs[0]) | set(runs[1]) if runs[0].get(k) != runs[1].get(k))
    eng.check(not diff, "non-terminal-residues-built-identically", note=f"{resname}: with neutraln={nn} neutralc={nc} atoms of non-terminal residues differ from the run without the options: {[(k, runs[0].get(k), runs[1].get(k)) for k in diff[:3]]}")


WATER_SITES = {
    "contact": [(3.0, 8.0, 2.0)],
    "isolated": [(40.0, 42.0, 44.0)],
    "isolated-pair": [(40.0, 42.0, 44.0), (42.8, 42.0, 44.0)],
    "contact-and-isolated": [(3.0, 8.0, 2.0), (-30.0, 5.0, 61.0)],
}


def h_added_water(eng, ff):
    """water hydrogens: bond lengths and the H-H separation of the water template, wherever the water sits
    (in contact with the protein, isolated, next to another water only), for every option combination"""
    from pdb2pqr import main, utilities

    site = list(WATER_SITES)[eng.choice("water_site", len(WATER_SITES))]
    opt, debump = eng.flag("opt"), eng.flag("debump")
    lines = [ln for ln in fixtures.peptide_lines(["ALA", "SER", "ALA"]) if not ln.startswith("END")]
    for k, (x, y, z) in enumerate(WATER_SITES[site]):
        lines.append(fixtures.atom_line(900 + k, "O", "HOH", "W", 50 + k, x, y, z, record="HETATM"))
    try:
        bm, defn = fixtures.prepared(lines)
        args = fixtures.Args(ff=ff, pka_method=None, debump=debump, opt=opt)
        main.non_trivial(args, bm, None, defn, False)
    except (ValueError, KeyError, TypeError, AttributeError) as e:
        eng.check(True, "loud-failure-tolerated", note=type(e).__name__)
        return
    ref = fixtures.pristine_definition().map["WAT"].map
    d_oh = utilities.distance(ref["O"].coords, ref["H1"].coords)
    d_hh = utilities.distance(ref["H1"].coords, ref["H2"].coords)
    for r in bm.residues:
        if r.name not in ("WAT", "HOH"):
            continue
        o = r.get_atom("O")
        hs = [a for a in r.atoms if a.is_hydrogen]
        eng.check(len(hs) == 2, "water-has-two-hydrogens", note=f"{r} ({site}, opt={opt}): hydrogens {[a.name for a in hs]}")
        for h in hs:
            d = utilities.distance(h.coords, o.coords)
            eng.check(bool(abs(d - d_oh) < 0.12), "hydrogen-at-template-distance-from-its-topology-parent", note=f"{r} {h.name}: {d:.2f} A from O (template {d_oh:.2f} A); water site {site}, opt={opt}, debump={debump}")
        if len(hs) == 2:
            d = utilities.distance(hs[0].coords, hs[1].coords)
            eng.check(bool(abs(d - d_hh) < 0.25), "water-angle-as-in-template", note=f"{r}: H-H {d:.2f} A (template {d_hh:.2f} A); water site {site}, opt={opt}")


def table_template_bonds():
    """table lemma (finite, enumerated - not symbolic): in every topology template the real Definition serves (AA.xml,
    NA.xml and every patched variant built at load time: DA/DC/DG from the ribo templates, HID, ASH, terminal forms ...)
    each declared bond joins two atoms that are at bonding distance in the template's own coordinates (X-H 0.85-1.45 A,
    heavy-heavy 1.1-2.2 A).  The placement code superposes template coordinates and the bonded-geometry checks compare
    with them, so a template that contradicts itself puts the added atom off its parent (round 6: a patch that took over
    the bond list of a re-declared atom but not its coordinates)."""
    from pdb2pqr import io, utilities

    defn = io.get_definitions()
    rows, violations = 0, []
    for rn, r in sorted(defn.map.items()):
        if rn.endswith("WAT") and rn != "WAT":
            continue  # terminal patches applied to water: never instantiated
        for an, a in r.map.items():
            for b in a.bonds:
                if b not in r.map:
                    continue
                rows += 1
                d = float(utilities.distance([a.x, a.y, a.z], [r.map[b].x, r.map[b].y, r.map[b].z]))
                lo, hi = (0.85, 1.45) if (an.startswith("H") or b.startswith("H")) else (1.1, 2.2)
                if not lo <= d <= hi:
                    violations.append({"label": "template-bond-is-a-bond", "values": {"template": rn, "atom": an, "bonded_to": b}, "reproduced": True, "replay_detail": f"template {rn}: {an} is declared bonded to {b} but sits {d:.3f} A from it in the template coordinates"})
    return {"table_rows": rows, "distinct": rows, "violations": violations[:20], "samples": [{"rows": rows}]}


def obligations(tier):
    obs = c04.obligations(tier, prop="C05")
    groups = [("ALA", "CB"), ("LYS", "NZ"), ("MET", "CE")] if tier == "quick" else [("ALA", "CB"), ("LYS", "NZ"), ("MET", "CE"), ("VAL", "CG1"), ("VAL", "CG2"), ("THR", "CG2"), ("LEU", "CD1"), ("ILE", "CG2"), ("ILE", "CD1")]
    for r, p in groups:
        if r in ("LEU", "ILE"):
            variants = [(3, "+120"), (3, "+240")]  # the one-bond branch of LEU/ILE measures a dihedral (acos): outside
        else:
            variants = [(2, "-"), (3, "+120"), (3, "+240")]
        for br, at in variants:
            obs.append(Obligation(f"tetrahedral-{r}-{p}-branch{br}-{at}", run_tetrahedral, dict(resname=r, parent=p, branch=br, h1_at=at), kind="lemma", group="tetrahedral"))
            if tier == "thorough" or (r, p) in (("ALA", "CB"), ("LYS", "NZ")):
                obs.append(Obligation(f"tetrahedral-{r}-{p}-branch{br}-{at}-input-hydrogens", run_tetrahedral, dict(resname=r, parent=p, branch=br, h1_at=at, input_h=True), kind="lemma", group="tetrahedral"))
    for r, posn in (("SER", "internal"), ("GLY", "internal"), ("ASP", "cterm"), ("SER", "nterm")) if tier == "quick" else [(r, p) for r in ("SER", "GLY", "ASP", "CYS") for p in ("nterm", "internal", "cterm")]:
        obs.append(Obligation(f"reference-pairs-{r}-{posn}", h_reference_pairs, dict(resname=r, position=posn), group="reference-pairs", time_cap=1500, max_paths=100000))
    for r in ("ASH", "GLH", "SER", "TYR") if tier == "quick" else ("ASH", "GLH", "SER", "THR", "TYR", "ASN", "GLN", "HIS", "LYS"):
        for ff in ("parse",) if tier == "quick" else ("parse", "amber"):
            obs.append(Obligation(f"added-geometry-{r}-{ff}", h_added_geometry, dict(resname=r, ff=ff), group="added-geometry", time_cap=1500))
    for ff in ("amber",) if tier == "quick" else ("amber", "parse", "charmm"):
        for position in ("nterm", "cterm"):
            obs.append(Obligation(f"added-geometry-{position}-{ff}", h_added_geometry_terminal, dict(ff=ff, position=position), group="added-geometry", time_cap=1500))
    for r, ox in (("SER", "OG"), ("THR", "OG1"), ("TYR", "OH")):
        obs.append(Obligation(f"three-bond-free-position-{r}", h_three_bond_free_position, dict(resname=r, oxygen=ox), group="free-position", time_cap=600))
    obs.append(Obligation("template-bonds-are-bonds", table_template_bonds, {}, kind="table", group="templates"))
    obs.append(Obligation("partly-protonated-terminus-amber", h_partly_protonated_terminus, dict(ff="amber"), group="added-geometry", time_cap=1500))
    obs.append(Obligation("nucleic-repair-amber", h_nucleic_repair, dict(ff="amber"), group="added-geometry", time_cap=1500))
    obs.append(Obligation("neutral-terminus-locality-parse", h_neutral_terminus_locality, dict(ff="parse"), group="added-geometry", time_cap=1500))
    for ff in ("parse",) if tier == "quick" else ("parse", "amber", "charmm"):
        obs.append(Obligation(f"added-water-{ff}", h_added_water, dict(ff=ff), group="added-geometry", time_cap=1500))
    # a hydrogen finalised (or placed by a donor attempt) on an oxygen with two bonds sits at a free tetrahedral position (C14's site harness)
    from . import c14

    for kind, pre, attempt in (("water", ("H1", "LP1"), False), ("water", ("LP1", "LP2"), False), ("alcohol", ("LP1",), False), ("water", ("H1", "LP1"), True), ("alcohol", ("LP1",), True)):
        obs.append(Obligation(f"free-position-{kind}-{'+'.join(pre)}{'-donor-attempt' if attempt else ''}", c14.h_hydrogen_site, dict(kind=kind, pre=list(pre), then_complete=False, attempt=attempt, prop="C05"), group="free-position", time_cap=1200))
    for n in (2, 3) if tier == "quick" else (2, 3, 4):
        obs.append(Obligation(f"gap-pointers-n{n}", h_gap_pointers, dict(n=n), group="gap-pointers", time_cap=1200))
    return obs


def encoded():
    from pdb2pqr import aa
    from pdb2pqr import biomolecule as biomol
    from pdb2pqr import debump, quatfit, residue

    return [aa.Amino.rebuild_tetrahedral, residue.Residue.rotate_tetrahedral, quatfit.qchichange, debump.Debump.set_dihedral_angle, residue.Residue.get_moveable_names, biomol.Biomolecule.set_reference_distance, biomol.Biomolecule.update_bonds]


META = dict(
    stubs=[
        "tetrahedral: coordinates of parent, next atom and first hydrogen symbolic; cos(+-120 deg) = -1/2, sin = +-s with s^2 = 3/4 (exact); normalize(v) -> unit vector w with v = lambda*w; the second hydrogen placed exactly at +120 or +240 from the first",
        "torsion classification: as in C04 (all coordinates symbolic)",
        "gap pointers: biomolecule.util.distance -> symbolic for the consecutive C-N pairs",
    ],
    bounds=[
        "tetrahedral groups: quick ALA CB, LYS NZ, MET CE; thorough + VAL, THR, LEU, ILE methyls; two- and three-bond branches",
        "torsion classification: same residues/positions/dihedrals as C04",
        "gap pointers: chains of 2-3 (thorough 4) residues, every C-N distance an arbitrary positive real",
        "non-degeneracy: the first hydrogen is at least 0.5 A off the parent-next axis",
    ],
    outside=[
        "polar-hydrogen / lone-pair placement in hydrogens/optimize.py on ARBITRARY hydrogen-bond networks (it is exercised through the real pipeline on tripeptides with symbolic option/stretch selectors and a template-distance oracle) and the one-bond branch of rebuild_tetrahedral (superposition: C15; LEU/ILE staggering uses a measured dihedral)",
        "'within the distortion already present in the input' (a float tolerance statement); three-bond branch with a second hydrogen at a distorted position",
    ],
    assumptions=[],
    technique="real code on z3 Real proxies, polynomial lemmas (two z3 builds) + finite bond-graph condition + symbolic paths for the gap pointers and site selectors + one table lemma (template bonds, enumerated)",
)

MANIFEST = dict(
    text="For C05: the real rebuild_tetrahedral/rotate_tetrahedral on symbolic coordinates (two- and three-bond branches): the added hydrogen has the parent distance and the angle to the parent-next bond of the hydrogen it is rotated from, sits at the free tetrahedral position (never on an existing hydrogen) and the existing atoms end where they started (exact: cos = -1/2, sin^2 = 3/4); every torsion change of the real set_dihedral_angle carries hydrogens with their parents (C04's symbolic classification applied to all bonds with a hydrogen, all coordinates and angles symbolic); the real update_bonds clears the peptide neighbour pointers on both sides of a chain break for every C-N distance, so the three reference atoms of a superposition are never taken across a gap. Water hydrogens through the real pipeline for a water in contact, isolated, or next to another water only (O-H and H-H against the template). Superposition algebra: C15. Round 4: every residue type as first / last residue of a chain (selector) with the same template-distance checks incl. the terminal amine hydrogens, no input heavy atom displaced by hydrogen building; a hydrogen finalised or placed by a donor attempt on an oxygen with two bonds sits at one of the two free tetrahedral positions (site harness of C14). Round 6 (table lemma): every declared bond of every template the Definition serves joins atoms at bonding distance in the template's own coordinates. Round 6: the tetrahedral completion also with the present hydrogens marked as input atoms (a partly protonated input). The real Optimize.get_position_with_three_bonds returns the one free tetrahedral site for either site of the second substituent and either bond-list order (the three sites tied by the exact 3-cycle of the 120-degree turns, site separation an arbitrary real > 0.1 A).",
    note="Trusted: z3 (two builds), exact reals. Polar hydrogen / lone-pair placement during optimisation is outside. Known findings: N-terminal H2/H3, neutral C-terminal HO and methyl hydrogens on branch atoms are ranked by distance from CA and rotate with a bond they are not attached beyond (known_findings.json).",
    technique="polynomial lemmas over terms from the real code (z3 QF_NRA, two builds) + finite graph condition + symbolic execution (symx) + one enumerated table lemma (template bonds)",
    design="DESIGN.md section 3 C05",
)
