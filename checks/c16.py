"""C16 - ligand charges conserve formal charge and stay on the ligand.

K1: real ligand.peoe.equilibrate on small molecular graphs with symbolic
formal charges; the electronegativity of a symbolically charged atom is an
uninterpreted function of (atom type, charge), so conservation is shown for
ANY electronegativity model.  K2: table lemma - every supported Sybyl type gets
the documented radius (type first, then element, primary table before the
secondary) and it is positive.  K3: the ligand branch of the real non_trivial
on a symbolic complex (name collisions between the ligand and other hetero
groups / waters symbolic).
"""
from __future__ import annotations

import itertools
import math

import z3

from symx import core
from symx.core import And, Implies, Not
from symx.run import Obligation
from symx.shims import patched

from . import flow

PROP = "C16"

GRAPHS = {
    "pair": (["C.3", "O.3"], [(0, 1)]),
    "pair-same-type": (["C.3", "C.3"], [(0, 1)]),
    "chain3": (["C.3", "N.4", "H"], [(0, 1), (1, 2)]),
    "chain3-hetero": (["O.co2", "C.2", "O.co2"], [(0, 1), (1, 2)]),
    "triangle": (["C.3", "C.3", "O.3"], [(0, 1), (1, 2), (0, 2)]),
    "star4": (["N.4", "H", "H", "C.3"], [(0, 1), (0, 2), (0, 3)]),
    "chain4": (["C.3", "C.2", "O.2", "H"], [(0, 1), (1, 2), (0, 3)]),
    "isolated": (["C.3"], []),
}


class _Atom:
    def __init__(self, i, type_, charge):
        self.name = f"X{i}"
        self.type = type_
        self.charge = charge
        self.bonded_atoms = []
        self.idx = i


def _isclose(a, b, rel_tol=1e-09, abs_tol=0.0):
    if not (core.is_sym(a) or core.is_sym(b)):
        return math.isclose(a, b, rel_tol=rel_tol, abs_tol=abs_tol)
    d = abs(a - b)
    m = core.sym_max([abs(a), abs(b)])
    return bool(d <= core.sym_max([rel_tol * m, abs_tol]))


def h_peoe(eng, graph, ncycles, order):
    from pdb2pqr.ligand import peoe

    types, bonds = GRAPHS[graph]
    n = len(types)
    q = [eng.real(f"q{i}") for i in range(n)]
    eng.assume(And(*[And(x >= -3, x <= 3) for x in q]))
    real_chi = peoe.electronegativity
    ufs = {}

    def chi(charge, terms, atom_type):
        if not core.is_sym(charge):
            return real_chi(charge, terms, atom_type)
        f = ufs.setdefault(atom_type, z3.Function(f"chi_{atom_type.replace('.', '_')}", z3.RealSort(), z3.RealSort()))
        return core.SymReal(f(core.to_real_term(charge)))

    def run(perm):
        atoms = [_Atom(i, types[i], q[i]) for i in range(n)]
        for a, b in bonds:
            atoms[a].bonded_atoms.append(atoms[b])
            atoms[b].bonded_atoms.append(atoms[a])
        listed = [atoms[i] for i in perm]
        sh = [(peoe, "electronegativity", chi), (peoe, "isclose", _isclose), (peoe, "abs", core.sym_abs)] if eng.symbolic else []
        with patched(*sh):
            peoe.equilibrate(listed, num_cycles=ncycles)
        return atoms

    atoms = run(list(range(n)))
    total_formal = sum(q, 0)
    total = sum((a.charge for a in atoms), 0)
    tol = 1e-9
    eng.check(core.close(total, total_formal, tol), "sum-of-charges-conserved", note=f"graph {graph}, {ncycles} cycles: partial charges sum to something other than the formal charges")
    if order != "identity":
        perm = list(reversed(range(n))) if order == "reversed" else list(range(1, n)) + [0]
        atoms2 = run(perm)
        eng.check(And(*[core.close(a.charge, b.charge, tol) for a, b in zip(atoms, atoms2)]), "independent-of-atom-order", note=f"graph {graph}: listing the atoms in order {perm} changes the charges")


# ---------------------------------------------------------------------------
# K2: radii table lemma
# ---------------------------------------------------------------------------


def table_radii():
    from pdb2pqr.ligand import NONBONDED_BY_TYPE, RADII
    from pdb2pqr.ligand.mol2 import Mol2Atom

    rows = 0
    violations = []
    samples = []
    primary, secondary = RADII["zap9"], RADII["bondi"]
    for t in sorted(NONBONDED_BY_TYPE):
        rows += 1
        a = Mol2Atom()
        a.type = t
        a.name = "Q1"
        element = t.split(".")[0]
        # documented rule: within a table the Sybyl type wins over the element; the primary table wins over the secondary
        want = None
        for d in (primary, secondary):
            for key in (t, element):
                if key in d:
                    want = d[key]
                    break
            if want is not None:
                break
        try:
            a.assign_radius(primary, secondary)
            got = a.radius
        except KeyError:
            got = None
        case = {"type": t}
        if want is None:
            if got is not None:
                violations.append({"label": "radius-from-table", "values": case, "reproduced": True, "replay_detail": f"type {t}: no table entry but radius {got} assigned"})
            continue
        if got != want or not (got > 0):
            violations.append({"label": "radius-from-table", "values": case, "reproduced": True, "replay_detail": f"type {t}: radius {got}, documented lookup gives {want}"})
        if len(samples) < 3:
            samples.append({"type": t, "radius": got})
    return {"table_rows": rows, "distinct": rows, "violations": violations, "samples": samples}


# ---------------------------------------------------------------------------
# K3: transfer of ligand parameters (real non_trivial, stage stubs)
# ---------------------------------------------------------------------------


class _MolAtom:
    def __init__(self, name, charge, radius):
        self.name, self.charge, self.radius = name, charge, radius


def h_transfer(eng, ff, collisions=True, runs=1):
    """complex = amino residue + water + the ligand + another hetero group;
    name collisions are symbolic (collisions=False: distinct names throughout - C01 reuses the harness that way)"""
    water_o = "O"
    lig_names = ["L1", ["L2", "O"][eng.choice("ligand_has_atom_named_O", 2) if collisions else 0]]
    other_name = ["X1", "L1"][eng.choice("other_group_reuses_ligand_atom_name", 2) if collisions else 0]
    w = flow.World(eng, "r", False, {}, [])
    split = eng.choice("ligand_spans_two_residues", 2)
    lig_res = [("LIG", [(nm, "HETATM", False) for nm in lig_names])] if not split else [("LIG", [(lig_names[0], "HETATM", False)]), ("LIG", [(lig_names[1], "HETATM", False)])]
    w.residue_specs = [
        ("ALA", [("N", "ATOM", True), ("CA", "ATOM", True)]),
        ("WAT", [(water_o, "HETATM", True), ("H1", "HETATM", True)]),
        *lig_res,
        ("SO4", [(other_name, "HETATM", False), ("S", "HETATM", False)], dict(res_seq=301, chain_id="A")),
        # the same cofactor bound to a second chain under the same residue number (homodimer numbering)
        ("SO4", [(other_name, "HETATM", False), ("S", "HETATM", False)], dict(res_seq=301, chain_id="B")),
    ]
    w.ligand_atoms = {lig_names[0]: _MolAtom(lig_names[0], 0.5, 1.75), lig_names[1]: _MolAtom(lig_names[1], -0.5, 1.6)}
    opts = flow.symbolic_options(eng, fixed=dict(ff=ff, pka=0, ligand=1), model=dict(clean=False, assign_only=False, debump=True, opt=True, drop_water=False, neutraln=False, neutralc=False), formatting=dict(whitespace=False, keep_chain=False, include_header=False, ffout=0, pdb_output=0, apbs_input=0))
    eng.assume(And(opts["ph"] >= 0, opts["ph"] <= 14))
    captured = {}
    from pdb2pqr import main

    real_nt = main.non_trivial

    def spy(**kw):
        captured["bm"] = kw["biomolecule"]
        r = real_nt(**kw)
        captured["result"] = r
        return r

    if runs > 1:
        # an earlier --ligand run in the same process (programmatic use: main_driver called in a loop); nothing of it may
        # reach this run's output
        w0 = flow.World(eng, "r0", False, {}, [])
        w0.residue_specs, w0.ligand_atoms = w.residue_specs, w.ligand_atoms
        flow.run_driver(w0, dict(opts))
    n0 = len(w0.log) if runs > 1 else 0
    with patched((main, "non_trivial", spy)):
        exc = flow.run_driver(w, opts)
    if runs > 1:
        later = [x[0] for x in w0.log[n0:]]
        eng.check(not later, "earlier-run-objects-untouched", note=f"objects of the earlier run in this process were used again by this run: {later[:6]} ({len(later)} calls; e.g. its ligand atoms written into this run's output)")
    eng.note(f"ligand atoms {lig_names}, other group atom {other_name}, raised={type(exc).__name__ if exc else None}")
    if exc is not None:
        eng.check(True, "loud-failure-tolerated", note=str(exc)[:80])
        return
    bm = captured["bm"]
    printed = [x[1][0] for x in w.log if x[0] == "atom.get_pqr_string"]
    eng.check(len(printed) == len([a for a in bm.atoms if a.has_ff or any(a.residue is lg for lg in bm.residues if lg.name == "LIG")]), "as-many-lines-as-parameterised-atoms", note=f"{len(printed)} atom lines written, the complex of this run has {len(bm.atoms)} atoms (run {runs} of {runs} in this process)")
    by_id = {a._desc[1]: a for a in bm.atoms}
    ligs = [r for r in bm.residues if r.name == "LIG"]
    for a in bm.atoms:
        n = printed.count(a._desc[1])
        if any(a.residue is lg for lg in ligs):
            eng.check(n == 1, "ligand-atom-written-once", note=f"ligand atom {a.name} written {n} times")
            m = w.ligand_atoms[a.name]
            eng.check(a.ffcharge == m.charge and a.radius == m.radius, "ligand-atom-has-ligand-parameters")
        else:
            want_q, want_r = (0.125, 1.5) if a.has_ff else (None, None)
            eng.check(a.ffcharge == want_q and a.radius == want_r, "ligand-parameters-stay-on-the-ligand", note=f"{a.residue.name} atom {a.name} (not part of the ligand) carries charge {a.ffcharge} / radius {a.radius} taken from the MOL2 atom of the same name")
            eng.check(n == (1 if a.has_ff else 0), "non-ligand-atom-written-at-most-once", note=f"{a.residue.name} atom {a.name} written {n} times")
    # every atom of the complex is written or reported unassigned (also the second copy of a cofactor)
    reported = {id(a) for a in (captured["result"] or {}).get("missed_residues", [])} if isinstance(captured.get("result"), dict) else None
    if reported is not None:
        for a in bm.atoms:
            n = printed.count(a._desc[1])
            eng.check(n > 0 or id(a) in reported, "written-or-reported", note=f"{a.residue.name} {getattr(a.residue, 'chain_id', '?')} {a.residue.res_seq} atom {a.name} is neither written nor in the unassigned list the run returns")
    eng.derived["collision"] = (other_name == "L1") or (lig_names[1] == "O")


# ---------------------------------------------------------------------------
# K4: the whole real MOL2 path (read -> formal charges -> PEOE) on the repository's molecules with the atom
# records listed in another order (bonds renumbered): same total, same values per atom up to exchanges between
# atoms of the same type with the same neighbourhood
# ---------------------------------------------------------------------------

ORDERS = ["reversed", "rotated", "by-type", "by-type-descending", "hydrogens-first", "odd-even"]


def _permute_mol2(text, order):
    lines = text.splitlines()
    ia = next(i for i, ln in enumerate(lines) if "@<TRIPOS>ATOM" in ln)
    ib = next(i for i, ln in enumerate(lines) if "@<TRIPOS>BOND" in ln)
    ie = next((i for i, ln in enumerate(lines) if i > ib and ln.startswith("@<TRIPOS>")), len(lines))
    atoms = [ln.split() for ln in lines[ia + 1 : ib] if ln.split()]
    bonds = [ln.split() for ln in lines[ib + 1 : ie] if ln.split()]
    idx = list(range(len(atoms)))
    if order == "reversed":
        idx.reverse()
    elif order == "rotated":
        idx = idx[len(idx) // 3 :] + idx[: len(idx) // 3]
    elif order == "by-type":
        idx.sort(key=lambda i: (atoms[i][5], i))
    elif order == "by-type-descending":
        idx.sort(key=lambda i: (atoms[i][5], -i), reverse=True)
    elif order == "hydrogens-first":
        idx.sort(key=lambda i: (atoms[i][5] != "H", i))
    elif order == "odd-even":
        idx = idx[1::2] + idx[0::2]
    new_id = {atoms[old][0]: str(k + 1) for k, old in enumerate(idx)}
    out = lines[: ia + 1]
    for k, old in enumerate(idx):
        w = list(atoms[old])
        w[0] = str(k + 1)
        out.append(" ".join(w))
    out.append(lines[ib])
    nb = sorted(([new_id[b[1]], new_id[b[2]], b[3]] for b in bonds), key=lambda b: (int(b[0]), int(b[1])))
    for k, b in enumerate(nb):
        out.append(f"{k + 1} {b[0]} {b[1]} {b[2]}")
    out += lines[ie:]
    return "\n".join(out) + "\n"


def h_order(eng, molecule):
    import io as _io

    from pdb2pqr.ligand.mol2 import Mol2Molecule

    from . import fixtures

    from symx.run import REPO

    text = open(f"{REPO}/tests/data/{molecule}.mol2").read()
    order = ORDERS[eng.choice("order", len(ORDERS))]

    def run(t):
        lig = Mol2Molecule()
        lig.read(_io.StringIO(t))
        lig.assign_parameters()
        return {a.name: (a.type, sorted(b.type for b in a.bonded_atoms), round(a.formal_charge, 6), round(a.charge, 4)) for a in lig.atoms.values()}

    base, perm = run(text), run(_permute_mol2(text, order))
    eng.check(set(base) == set(perm), "same-atoms")
    tb, tp = sum(v[3] for v in base.values()), sum(v[3] for v in perm.values())
    eng.check(abs(tb - tp) < 5e-3, "total-charge-independent-of-atom-order", note=f"{molecule} listed {order}: total charge {tp:.3f} instead of {tb:.3f}")
    fb, fp = sum(v[2] for v in base.values()), sum(v[2] for v in perm.values())
    eng.check(abs(fb - fp) < 1e-6, "formal-charges-independent-of-atom-order", note=f"{molecule} listed {order}: sum of formal charges {fp} instead of {fb}")
    # values may move only between atoms of the same type with the same neighbour types
    cls = lambda d: sorted((v[0], tuple(v[1]), v[3]) for v in d.values())
    diff = [x for x, y in zip(cls(base), cls(perm)) if x[:2] != y[:2] or abs(x[2] - y[2]) > 2e-3]
    eng.check(not diff, "charges-move-only-between-equivalent-atoms", note=f"{molecule} listed {order}: {diff[:3]}")


def h_two_ligand_loads(eng):
    """the same --ligand path used twice in one process with different MOL2 content (the file was rewritten): each
    set-up works with the molecule in the file at that time (real main.setup_molecule on real temporary files)"""
    import io as _io
    import os
    import shutil
    import tempfile

    from symx.run import REPO

    from pdb2pqr import main, pdb

    from . import fixtures

    mols = ["ethanol", "acetate", "acetonitrile"]
    first, second = mols[eng.choice("first_ligand", 3)], mols[eng.choice("second_ligand", 3)]
    recs, _ = pdb.read_pdb(_io.StringIO("\n".join(fixtures.peptide_lines(["ALA", "GLY"])) + "\n"))
    tmp = tempfile.mkdtemp(prefix="c16-")
    got = []
    try:
        path = os.path.join(tmp, "ligand.mol2")
        for m in (first, second):
            shutil.copy(os.path.join(REPO, "tests", "data", f"{m}.mol2"), path)
            _bm, _defn, lig = main.setup_molecule(list(recs), fixtures.definition(), path)
            got.append(sorted((a.name, a.type) for a in lig.atoms.values()))
    finally:
        shutil.rmtree(tmp, ignore_errors=True)
    from pdb2pqr.ligand.mol2 import Mol2Molecule

    for tag, m, g in (("first", first, got[0]), ("second", second, got[1])):
        ref = Mol2Molecule()
        with open(os.path.join(REPO, "tests", "data", f"{m}.mol2")) as f:
            ref.read(f)
        want = sorted((a.name, a.type) for a in ref.atoms.values())
        eng.check(g == want, f"{tag}-set-up-uses-the-file-as-it-is-now", note=f"{tag} set-up with the path holding {m}: ligand atoms {g[:4]}..., the file has {want[:4]}...")


def h_ligand_records(eng):
    """every ligand HETATM record reaches the model: whatever alternate-location flag its records carry (a partially
    occupied ligand is often labelled B or C against solvent labelled A), whether two copies of the ligand are told
    apart by residue number or only by insertion code, and whatever bookkeeping records close the file (END, a single
    MODEL/ENDMDL bracket without END, nothing), atoms with distinct names are all kept, once per copy"""
    import io as _io

    from pdb2pqr import biomolecule as biomol
    from pdb2pqr import pdb

    from . import fixtures

    lines = [ln for ln in fixtures.peptide_lines(["ALA", "GLY"], ter=False) if not ln.startswith("END")]
    alts = [" ", "A", "B", "C"]
    names = ["C1", "O1", "O2", "H11"]
    chosen = [alts[eng.choice(f"altloc_{n}", len(alts))] for n in names[:3]] + [" "]
    strip = eng.flag("titration_strips_hydrogens")  # the PROPKA branch calls Biomolecule.remove_hydrogens before the ligand parameters are transferred
    numbering = eng.choice("two_copies_numbered", 3)  # 0: one copy; 1: 40 and 41; 2: 40A and 40B (insertion codes only)
    copies = [(40, " ")] if numbering == 0 else [(40, " "), (41, " ")] if numbering == 1 else [(40, "A"), (40, "B")]
    layout = eng.choice("file_layout", 3)  # 0: ... TER END; 1: MODEL 1 ... TER ENDMDL (no END); 2: no closing record at all
    chain = ["L", "A"][eng.choice("ligand_shares_the_protein_chain", 2)]
    lines.append(fixtures.atom_line(300, "O", "HOH", chain, 30, 11.0, 12.0, 2.0, altloc="A", record="HETATM"))
    for c, (num, ic) in enumerate(copies):
        for k, (n, alt) in enumerate(zip(names, chosen)):
            lines.append(fixtures.atom_line(500 + 10 * c + k, n, "LIG", chain, num, 10.0 + 1.3 * k, 9.0 + 4.0 * c, 2.0, altloc=alt, icode=ic, record="HETATM"))
    text = {0: lines + ["TER", "END"], 1: ["MODEL        1"] + lines + ["TER", "ENDMDL"], 2: lines}[layout]
    try:
        records, _ = pdb.read_pdb(_io.StringIO("\n".join(text) + "\n"))
        bm = biomol.Biomolecule(records, fixtures.definition())
    except (IndexError, KeyError, ValueError) as e:
        eng.check(False, "ligand-complex-is-read", note=f"layout {layout}, numbering {numbering}: {type(e).__name__}: {str(e)[:80]}")
        return
    if strip:
        bm.remove_hydrogens()
    lig = [r for r in bm.residues if r.name == "LIG"]
    got = sorted((r.res_seq, (r.ins_code or " "), a.name) for r in lig for a in r.atoms)
    want = sorted((num, ic, n) for num, ic in copies for n in names)
    eng.check(got == want, "every-ligand-record-reaches-the-model", note=f"alternate-location flags {chosen}, copies {copies}, layout {layout}, chain {chain}: the model's ligand residues hold {got}")


def obligations(tier):
    obs = []
    graphs = ["pair", "pair-same-type", "chain3", "triangle", "isolated"] if tier == "quick" else list(GRAPHS)
    for g in graphs:
        n = len(GRAPHS[g][0])
        for ncycles in (1, 2) if tier == "quick" else (1, 2, 3):
            if n >= 4 and ncycles > 2:
                continue
            for order in ("identity", "reversed") if n > 1 else ("identity",):
                obs.append(Obligation(f"peoe-{g}-cycles{ncycles}-{order}", h_peoe, dict(graph=g, ncycles=ncycles, order=order), group="peoe", time_cap=1500, max_paths=100000))
    obs.append(Obligation("peoe-pair-cycles6-identity", h_peoe, dict(graph="pair", ncycles=6, order="identity"), group="peoe", time_cap=1500, max_paths=100000))
    for mol in ("adp", "acetate", "ethanol") if tier == "quick" else ("adp", "acetate", "ethanol", "acetonitrile", "acetylcholine", "fatty-acid", "glycerol", "pyrrole", "tetramethylammonium", "1HPX-ligand", "1QBS-ligand", "1US0-ligand", "crown-ether", "cyclohexane", "naphthalene", "anthracene"):
        obs.append(Obligation(f"order-{mol}", h_order, dict(molecule=mol), group="order", time_cap=1200))
    obs.append(Obligation("two-ligand-loads-same-path", h_two_ligand_loads, {}, group="two-loads", time_cap=600))
    # with --ffout every atom is looked up in the naming scheme under its OWN residue (C09's harness with a hetero group after the peptide)
    from . import c09

    obs.append(Obligation("name-scheme-with-hetero-group", c09.h_name_scheme, dict(seq=["ALA", "HIS", "GLY"]), group="name-scheme", time_cap=1200, max_paths=100000))
    # --drop-water removes waters only: a ligand that shares chain and residue number with a water stays (C07's record harness)
    from . import c07

    lk = ["hetatm-ligand-numbered-like-a-water", "hetatm-ligand", "hetatm-water", "atom-new-residue"]
    for k in range(2):
        obs.append(Obligation(f"drop-water-keeps-ligand-first={lk[k]}", c07.h_records, dict(nlines=2, kinds=lk, models="plain", drop=True, first=k), group="ligand-records", time_cap=1200, max_paths=100000))
    obs.append(Obligation("ligand-records-altloc", h_ligand_records, {}, group="ligand-records", time_cap=600))
    obs.append(Obligation("radii-table", table_radii, {}, kind="table", group="radii"))
    for ff in (0, 1):
        obs.append(Obligation(f"transfer-ff{ff}", h_transfer, dict(ff=ff), group="transfer", time_cap=1200))
    obs.append(Obligation("transfer-ff0-second-run-in-process", h_transfer, dict(ff=0, collisions=False, runs=2), group="transfer", time_cap=1200))
    return obs


def encoded():
    from pdb2pqr import main
    from pdb2pqr.ligand import mol2, peoe

    return [peoe.equilibrate, peoe.assign_terms, mol2.Mol2Atom.assign_radius, main.non_trivial]


META = dict(
    stubs=[
        "peoe.electronegativity: real function for concrete charges (the +1 normalisers, from the real polynomial tables); for a symbolic charge an uninterpreted function chi_<type>(charge) - any electronegativity model",
        "peoe.isclose / abs -> symx versions (exact semantics of math.isclose with its default tolerances)",
        "atoms: minimal stand-ins with type, charge, bonded_atoms (the attributes equilibrate reads)",
        "transfer: the C12 recording environment with a four-residue complex (amino, water, ligand, another hetero group) and a two-atom MOL2 object",
    ],
    bounds=[
        "graphs: pair, pair of equal types, 3-chain, triangle, isolated atom (thorough: + hetero 3-chain, 4-star, 4-chain); formal charges symbolic in [-3,3]; 1-2 (thorough 3) cycles, and the default 6 cycles on the pair",
        "atom orders: identity and reversed",
        "transfer: ligand atom named like the water oxygen or not, other hetero group reusing a ligand atom name or not, ligand in one residue or spanning two (symbolic choices); ff in {PARSE, amber}",
        "radii: table lemma, exhaustive over the Sybyl types of NONBONDED_BY_TYPE",
    ],
    outside=["MOL2 parsing, ring perception, bond-order/formal-charge heuristics of Mol2Atom.formal_charge", "floating point: exact reals, conservation up to 1e-9", "molecules with more than four atoms"],
    assumptions=["the documented radius rule: within a table the Sybyl type wins over the element; ZAP9 before Bondi"],
    technique="symbolic execution of the real equilibrate with an uninterpreted electronegativity (symx, z3 UF+LRA) + SMT verdict per path; table lemma; symbolic name collisions in the real non_trivial",
)

MANIFEST = dict(
    text="For C16: the real peoe.equilibrate on small graphs with symbolic formal charges and an UNINTERPRETED electronegativity for charged atoms (so conservation of the formal-charge sum and independence of the atom order hold for any electronegativity model), 1-3 cycles and the default 6 on the pair; exhaustive table lemma for radii (every supported Sybyl type gets the documented, positive radius); the ligand branch of the real non_trivial on a symbolic complex: MOL2 parameters reach only the ligand's atoms, every ligand atom is written exactly once, other hetero groups and waters keep theirs; the whole real MOL2 path (read, formal charges, PEOE) on the repository's molecules with the atom records listed in six other orders (selector): same total, same formal charges, values move only between atoms of the same type and neighbourhood; ligand HETATM records with any alternate-location flags reach the model. Round 4: two copies of the ligand told apart by residue number or only by insertion code, three file layouts (END, a single MODEL/ENDMDL bracket without END, no closing record), ligand in its own or in the protein chain. Round 5: the same --ligand path set up twice with different MOL2 content (real setup_molecule, real files); every atom looked up in the naming scheme under its own residue (C09 harness).",
    note="Trusted: z3 (UF + linear real arithmetic), exact reals, atom stand-ins expose exactly the attributes equilibrate reads. Graphs have at most four atoms. Known finding: the transfer is by atom name over every HETATM residue (known_findings.json).",
    technique="symbolic execution of real code with an uninterpreted electronegativity (symx) + SMT verdict per path; table lemma",
    design="DESIGN.md section 3 C16",
)
