#!/bin/sh
# usage: try_seed.sh <seed name> [tier] : apply seeded patch to /repo, run the property's check, revert.
seed=$1; tier=${2:-quick}; d=/verif/seeded/$seed
id=$(python3 -c "import json;print(json.load(open('$d/meta.json'))['property'])")
[ -n "$(git -C /repo status --porcelain)" ] && { echo "/repo not clean"; exit 2; }
git -C /repo apply "$d/patch.diff" 2>/dev/null || { git -C /repo apply --3way "$d/patch.diff" >/dev/null 2>&1 && git -C /repo reset -q; } || { echo "patch does not apply"; exit 2; }
cd /verif && ./vcheck $id --tier $tier > /tmp/try-$seed.log 2>&1; rc=$?
git -C /repo checkout -- .
echo "seed=$seed check=$id tier=$tier exit=$rc"; grep -m3 "VIOLATION\|INCONCLUSIVE" /tmp/try-$seed.log; tail -n 1 /tmp/try-$seed.log
git -C /verif checkout -- evidence 2>/dev/null
exit 0
