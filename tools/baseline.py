#!/usr/bin/env python3
"""Run the pinned stable baseline (151 tests of /root/.vp/BASELINE.json) in a
given checkout of pdb2pqr and report whether all of them pass.

usage: baseline.py [DIR]     (default /repo)
exit 0 iff every stable test passed.
"""
import json
import os
import re
import subprocess
import sys
import tempfile
import xml.etree.ElementTree as ET

def main():
    d = sys.argv[1] if len(sys.argv) > 1 else "/repo"
    base = json.load(open("/root/.vp/BASELINE.json"))
    stable = base["stable_pass"]
    ids = []
    for t in stable:
        mod, rest = t.split("::", 1)
        ids.append(mod.replace(".", "/") + ".py::" + rest)
    junit = tempfile.mktemp(suffix=".xml", dir="/var/tmp")
    env = dict(os.environ)
    env.pop("PDB2PQR_VERIF", None)
    env["PYTHONDONTWRITEBYTECODE"] = "1"
    cmd = ["/venv/bin/python", "-m", "pytest", "-q", "-p", "no:cacheprovider",
           "--timeout=900", "--junitxml=" + junit] + ids
    r = subprocess.run(cmd, cwd=d, env=env, capture_output=True, text=True)
    passed = set()
    try:
        for tc in ET.parse(junit).getroot().iter("testcase"):
            if not any(c.tag in ("failure", "error", "skipped") for c in tc):
                passed.add(tc.get("classname") + "::" + tc.get("name"))
    finally:
        if os.path.exists(junit):
            os.remove(junit)
    missing = [t for t in stable if t not in passed]
    print(f"stable baseline in {d}: {len(stable) - len(missing)}/{len(stable)} passed")
    for t in missing[:20]:
        print("  NOT PASSED:", t)
    if missing:
        print(r.stdout[-3000:])
    sys.exit(1 if missing else 0)

main()
