#!/bin/sh
# usage: confirm_seed.sh <src dir with patch.diff demo.py notes.md> <property id> <seed name>
# Confirms in a fresh scratch worktree: demo passes pristine, fails patched, baseline 151/151 patched.
# On success stores /verif/seeded/<id>-<name>/{patch.diff,demo.py,notes.md,meta.json}. Scratch worktree is removed.
set -u
src=$1; id=$2; name=$3
wt=/tmp/confirm-$id-$name-$$
git -C /repo worktree add -q --detach "$wt" HEAD || exit 2
cleanup() { git -C /repo worktree remove --force "$wt" >/dev/null 2>&1; }
trap cleanup EXIT
cd "$wt"
mkdir -p "$wt/OUT/S" && cp "$src"/* "$wt/OUT/S/"
PYTHONPATH="$wt" /venv/bin/python OUT/S/demo.py >/tmp/confirm-$$-pristine.log 2>&1; p=$?
git apply "$src/patch.diff" || { echo "patch does not apply"; exit 2; }
PYTHONPATH="$wt" /venv/bin/python OUT/S/demo.py >/tmp/confirm-$$-patched.log 2>&1; q=$?
python3 /verif/tools/baseline.py "$wt" >/tmp/confirm-$$-base.log 2>&1; b=$?
echo "demo pristine exit=$p patched exit=$q baseline exit=$b ($(head -1 /tmp/confirm-$$-base.log))"
if [ $p -eq 0 ] && [ $q -ne 0 ] && [ $b -eq 0 ]; then
  out=/verif/seeded/$id-$name; mkdir -p "$out"
  cp "$src/patch.diff" "$src/demo.py" "$out/"; [ -f "$src/notes.md" ] && cp "$src/notes.md" "$out/"
  python3 - "$out" "$id" "$name" "$p" "$q" <<'PY'
import json,sys,os
out,pid,name,p,q=sys.argv[1:6]
notes=open(os.path.join(out,'notes.md')).read() if os.path.exists(os.path.join(out,'notes.md')) else ''
json.dump({"property":pid,"name":name,"breaks":pid,"needs_to_manifest":notes.strip()[:1500],
 "confirmed":{"how":"fresh scratch worktree of /repo HEAD: demo.py on pristine tree, git apply patch.diff, demo.py again, tools/baseline.py (151 stable tests)","demo_exit_pristine":int(p),"demo_exit_patched":int(q),"baseline_with_patch":"151/151 passed"},
 "detected_by":None},open(os.path.join(out,'meta.json'),'w'),indent=1)
PY
  echo "stored $out"
else
  echo "NOT CONFIRMED"; tail -n 5 /tmp/confirm-$$-pristine.log /tmp/confirm-$$-patched.log /tmp/confirm-$$-base.log
fi
rm -f /tmp/confirm-$$-*.log
