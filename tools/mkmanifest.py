#!/usr/bin/env python3
"""Regenerate /verif/MANIFEST.json from the table below (keeps it valid)."""
import json
import os

HERE = os.path.dirname(os.path.dirname(os.path.abspath(__file__)))

LEVEL_TEXT = (
    "Bounded symbolic execution of the real pdb2pqr functions (called, not re-modelled) on z3-backed proxy values; "
    "every path ends in an SMT query and the property is reported as holding only if every query is unsat, none is "
    "unknown and no cap was hit. Counterexamples are replayed on the unshimmed real code before a VIOLATION is printed. "
)

C11_REASON = (
    "determinism across hash seeds / process history: the quantified variables (hash seed, object identity, residual "
    "interpreter state) are not values the code computes on, so no symbolic input selects them; deciding it would mean "
    "modelling CPython hashing/allocation and executing the whole pipeline twice under that model - not encodable "
    "within reach of the solver-based technique (DESIGN.md section 4)"
)

CHECKS = {
    "C14": dict(
        text=LEVEL_TEXT + "For C14: Cells.add_cell/remove_cell/get_near_cells/assign_cells for ALL real coordinates "
        "(unbounded), cell sizes 2 and 5 (1..10 thorough), against a Euclidean brute-force oracle, over every add/remove/"
        "move/readd sequence up to the stated length.",
        note="Trusted: z3, the symx int()-truncation and association-list dict models (validated against CPython each run). "
        "Coordinates are exact reals (add_cell only compares with 0 and truncates, exact on doubles). Histories bounded "
        "(quick: 2 atoms x 1 op; thorough: 2 atoms x 2 ops, 3 atoms x 1 op). The hydrogens/* call sites of the remove/add "
        "protocol are outside the claim.",
        technique="symbolic execution of real code on z3 Real/Int proxies (symx) + SMT verdict per path",
        design="DESIGN.md section 3 C14",
    ),
}

CHECKS["C13"] = dict(
    text=LEVEL_TEXT + "For C13: Biomolecule.update_ss_bridges + apply_patch + add_hydrogens (HG suppression) + CYS.set_state on 2..4 (thorough 5) "
    "real CYS residues in four chain layouts and several file orders, with the SG-SG distances an arbitrary symbolic metric, so every "
    "placement around the 2.5 A limit (including the boundary) is covered.",
    note="Trusted: z3, symx proxies. util.distance is stubbed for SG-SG pairs (returns the symbolic metric); everything else is the real code on "
    "structures generated from AA.xml templates. Non-isolated configurations are unconstrained by the property. N <= 5 cysteines.",
    technique="symbolic execution of real code on z3 Real proxies (symx) + SMT verdict per path",
    design="DESIGN.md section 3 C13",
)

ALL = [f"C{i:02d}" for i in range(1, 19)]


def main():
    extra = {}
    p = os.path.join(HERE, "tools", "manifest_checks.json")
    if os.path.exists(p):
        extra = json.load(open(p))
    checks = dict(CHECKS)
    checks.update(extra.get("checks", {}))
    na = extra.get("not_applicable", {})
    m = {
        "version": 1,
        "setup_cmd": "sh ./setup.sh",
        "hooks": {
            "guard": "PDB2PQR_VERIF",
            "enable": "no source hooks: stubs and builtin shims are installed from the harness by assigning into module namespaces at check time; PDB2PQR_VERIF=1 is exported by ./vcheck but nothing in /repo reads it",
            "baseline_off_cmd": "python3 tools/baseline.py /repo",
            "source_commits": [],
            "add_only": True,
        },
        "engines": [
            {"name": "symx", "path": "symx/", "serves_properties": sorted(checks), "kind_free_text": "own symbolic executor: real pdb2pqr functions run on z3-backed proxies (SymInt/SymReal/SymBool/layout strings), DFS over branch decisions, z3 decides feasibility and the property on each path"},
        ],
        "checks": [],
        "not_applicable": [],
        "notes": "Every check: ./vcheck <id> --tier quick|thorough ; exit 0 held / 1 VIOLATION (replayed) / 3 inconclusive. Known findings: known_findings.json (never written at run time).",
    }
    for pid in ALL:
        if pid in checks:
            c = checks[pid]
            m["checks"].append(
                {
                    "property_id": pid,
                    "quick_cmd": f"./vcheck {pid} --tier quick",
                    "thorough_cmd": f"./vcheck {pid} --tier thorough",
                    "evidence_file": f"/verif/evidence/{pid}.json",
                    "replay_cmd_template": f"./vcheck {pid} --replay {{path}}",
                    "engine": c.get("engine", "symx"),
                    "level_claimed": {"category": "other", "text": c["text"], "design_ref": c.get("design", "DESIGN.md section 3")},
                    "level_note": c["note"],
                    "technique": c["technique"],
                }
            )
        else:
            reason = C11_REASON if pid == "C11" else na.get(pid, "check not built yet in this round (planned, see DESIGN.md section 0); not claimed until its harness runs clean")
            m["not_applicable"].append({"property_id": pid, "reason": reason})
    json.dump(m, open(os.path.join(HERE, "MANIFEST.json"), "w"), indent=1)
    print("MANIFEST.json:", len(m["checks"]), "checks,", len(m["not_applicable"]), "not applicable")


main()
