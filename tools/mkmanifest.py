#!/usr/bin/env python3
"""Regenerate /verif/MANIFEST.json from the table below (keeps it valid)."""
import json
import os

HERE = os.path.dirname(os.path.dirname(os.path.abspath(__file__)))

LEVEL_TEXT = (
    "Bounded symbolic execution of the real pdb2pqr functions (called, not re-modelled) on z3-backed proxy values; "
    "every path ends in an SMT query and the property is reported as holding only if every query is unsat, none is "
    "unknown and no cap was hit. Counterexamples are replayed on the unshimmed real code before a VIOLATION is printed. "
)

C11_REASON = (
    "determinism across hash seeds / process history: the quantified variables (hash seed, object identity, residual "
    "interpreter state) are not values the code computes on, so no symbolic input selects them; deciding it would mean "
    "modelling CPython hashing/allocation and executing the whole pipeline twice under that model - not encodable "
    "within reach of the solver-based technique (DESIGN.md section 4)"
)



def load_checks():
    """Read the MANIFEST = dict(...) literal of every checks/cXX.py (no import)."""
    import ast
    import glob

    out = {}
    for path in sorted(glob.glob(os.path.join(HERE, "checks", "c[0-9][0-9].py"))):
        tree = ast.parse(open(path).read())
        for node in tree.body:
            if isinstance(node, ast.Assign) and getattr(node.targets[0], "id", "") == "MANIFEST":
                kw = {k.arg: ast.literal_eval(k.value) for k in node.value.keywords}
                kw["text"] = LEVEL_TEXT + kw["text"]
                out[os.path.basename(path)[:3].upper()] = kw
    return out


ALL = [f"C{i:02d}" for i in range(1, 19)]


def main():
    extra = {}
    p = os.path.join(HERE, "tools", "manifest_checks.json")
    if os.path.exists(p):
        extra = json.load(open(p))
    checks = load_checks()
    na = extra.get("not_applicable", {})
    m = {
        "version": 1,
        "setup_cmd": "sh ./setup.sh",
        "hooks": {
            "guard": "PDB2PQR_VERIF",
            "enable": "no source hooks: stubs and builtin shims are installed from the harness by assigning into module namespaces at check time; PDB2PQR_VERIF=1 is exported by ./vcheck but nothing in /repo reads it",
            "baseline_off_cmd": "python3 tools/baseline.py /repo",
            "source_commits": [],
            "add_only": True,
        },
        "engines": [
            {"name": "symx", "path": "symx/", "serves_properties": sorted(checks), "kind_free_text": "own symbolic executor: real pdb2pqr functions run on z3-backed proxies (SymInt/SymReal/SymBool/layout strings), DFS over branch decisions, z3 decides feasibility and the property on each path"},
        ],
        "checks": [],
        "not_applicable": [],
        "notes": "Every check: ./vcheck <id> --tier quick|thorough ; exit 0 held / 1 VIOLATION (replayed) / 3 inconclusive. Known findings: known_findings.json (never written at run time).",
    }
    for pid in ALL:
        if pid in checks:
            c = checks[pid]
            m["checks"].append(
                {
                    "property_id": pid,
                    "quick_cmd": f"./vcheck {pid} --tier quick",
                    "thorough_cmd": f"./vcheck {pid} --tier thorough",
                    "evidence_file": f"/verif/evidence/{pid}.json",
                    "replay_cmd_template": f"./vcheck {pid} --replay {{path}}",
                    "engine": c.get("engine", "symx"),
                    "level_claimed": {"category": "other", "text": c["text"], "design_ref": c.get("design", "DESIGN.md section 3")},
                    "level_note": c["note"],
                    "technique": c["technique"],
                }
            )
        else:
            reason = C11_REASON if pid == "C11" else na.get(pid, "check not built yet in this round (planned, see DESIGN.md section 0); not claimed until its harness runs clean")
            m["not_applicable"].append({"property_id": pid, "reason": reason})
    json.dump(m, open(os.path.join(HERE, "MANIFEST.json"), "w"), indent=1)
    print("MANIFEST.json:", len(m["checks"]), "checks,", len(m["not_applicable"]), "not applicable")


main()
