#!/usr/bin/env python3
"""Apply every seeded change to /repo in turn, run the quick check of its property, revert, and
record the outcome in seeded/<name>/meta.json (detected_by) and seeded/RESULTS.md.
Never leaves /repo modified."""
import json
import os
import re
import subprocess
import sys

V = "/verif"
names = sorted(d for d in os.listdir(f"{V}/seeded") if os.path.isdir(f"{V}/seeded/{d}"))
only = sys.argv[1:]
rows = []
assert not subprocess.run(["git", "-C", "/repo", "status", "--porcelain"], capture_output=True, text=True).stdout.strip(), "/repo not clean"
for n in names:
    if only and not any(o in n for o in only):
        continue
    d = f"{V}/seeded/{n}"
    meta = json.load(open(f"{d}/meta.json"))
    pid = meta["property"]
    ok = subprocess.run(["git", "-C", "/repo", "apply", f"{d}/patch.diff"], capture_output=True).returncode == 0
    if not ok:
        ok = subprocess.run(["git", "-C", "/repo", "apply", "--3way", f"{d}/patch.diff"], capture_output=True).returncode == 0
        subprocess.run(["git", "-C", "/repo", "reset", "-q"])
    if not ok:
        subprocess.run(["git", "-C", "/repo", "checkout", "--", "."])
        rows.append((n, pid, "patch does not apply", ""))
        continue
    try:
        r = subprocess.run([f"{V}/vcheck", pid, "--tier", "quick"], capture_output=True, text=True, cwd=V, timeout=3000)
        out = r.stdout
        rc = r.returncode
    except subprocess.TimeoutExpired:
        out, rc = "", 124
    finally:
        subprocess.run(["git", "-C", "/repo", "checkout", "--", "."])
    labels = sorted(set(re.findall(r"label=(\S+)", out)))
    obs = sorted(set(re.findall(r"obligation=(\S+)", out)))[:3]
    verdict = {0: "MISSED", 1: "DETECTED", 3: "INCONCLUSIVE", 124: "TIMEOUT"}.get(rc, f"exit {rc}")
    if meta.get("status", "").startswith("neutralised"):
        verdict += " (neutralised by a later fix: see status)"
    meta["detected_by"] = {"check": f"./vcheck {pid} --tier quick", "exit": rc, "verdict": verdict, "labels": labels, "obligations": obs}
    json.dump(meta, open(f"{d}/meta.json", "w"), indent=1)
    rows.append((n, pid, verdict, ", ".join(labels)[:120]))
    print(n, verdict, labels[:3], flush=True)
subprocess.run(["git", "-C", V, "checkout", "--", "evidence"])
with open(f"{V}/seeded/RESULTS.md", "w") as f:
    f.write("| seeded change | property | quick check | violated labels |\n|---|---|---|---|\n")
    for r in rows:
        f.write("| " + " | ".join(r) + " |\n")
print("done")
