#!/usr/bin/env python3
"""Apply every seeded change in turn, run the quick check of its property, revert, and
record the outcome in seeded/<name>/meta.json (detected_by) and seeded/RESULTS.md.
Default: applied to /repo itself (git apply / git checkout -- .), never leaves /repo modified.
With SEED_WT=1 a scratch worktree of /repo HEAD under /tmp is used instead (PYTHONPATH / PDB2PQR_REPO point
the checks at it), so that /repo stays untouched while other runs are reading it; it is removed afterwards."""
import json
import os
import re
import subprocess
import sys

V = "/verif"
names = sorted(d for d in os.listdir(f"{V}/seeded") if os.path.isdir(f"{V}/seeded/{d}"))
only = sys.argv[1:]
rows = []
REPO = "/repo"
ENV = dict(os.environ)
if os.environ.get("SEED_WT"):
    REPO = f"/tmp/seedwt-{os.getpid()}"
    subprocess.run(["git", "-C", "/repo", "worktree", "add", "-q", "--detach", REPO, "HEAD"], check=True)
    ENV.update(PYTHONPATH=REPO, PDB2PQR_REPO=REPO)
assert not subprocess.run(["git", "-C", REPO, "status", "--porcelain"], capture_output=True, text=True).stdout.strip(), "/repo not clean"
for n in names:
    if only and not any(o in n for o in only):
        continue
    d = f"{V}/seeded/{n}"
    meta = json.load(open(f"{d}/meta.json"))
    pid = meta["property"]
    ok = subprocess.run(["git", "-C", REPO, "apply", f"{d}/patch.diff"], capture_output=True).returncode == 0
    if not ok:
        ok = subprocess.run(["git", "-C", REPO, "apply", "--3way", f"{d}/patch.diff"], capture_output=True).returncode == 0
        subprocess.run(["git", "-C", REPO, "reset", "-q"])
    if not ok:
        subprocess.run(["git", "-C", REPO, "checkout", "--", "."])
        rows.append((n, pid, "patch does not apply", ""))
        continue
    try:
        r = subprocess.run([f"{V}/vcheck", pid, "--tier", "quick"], capture_output=True, text=True, cwd=V, timeout=3000, env=ENV)
        out = r.stdout
        rc = r.returncode
    except subprocess.TimeoutExpired:
        out, rc = "", 124
    finally:
        subprocess.run(["git", "-C", REPO, "checkout", "--", "."])
    labels = sorted(set(re.findall(r"label=(\S+)", out)))
    obs = sorted(set(re.findall(r"obligation=(\S+)", out)))[:3]
    verdict = {0: "MISSED", 1: "DETECTED", 3: "INCONCLUSIVE", 124: "TIMEOUT"}.get(rc, f"exit {rc}")
    if meta.get("status", "").startswith("neutralised"):
        verdict += " (neutralised by a later fix: see status)"
    meta["detected_by"] = {"check": f"./vcheck {pid} --tier quick", "exit": rc, "verdict": verdict, "labels": labels, "obligations": obs}
    json.dump(meta, open(f"{d}/meta.json", "w"), indent=1)
    rows.append((n, pid, verdict, ", ".join(labels)[:120]))
    print(n, verdict, labels[:3], flush=True)
subprocess.run(["git", "-C", V, "checkout", "--", "evidence"])
if REPO != "/repo":
    subprocess.run(["git", "-C", "/repo", "worktree", "remove", "--force", REPO])
old = {}
if only and os.path.exists(f"{V}/seeded/RESULTS.md"):
    for line in open(f"{V}/seeded/RESULTS.md").read().splitlines()[2:]:
        c = [x.strip() for x in line.strip().strip("|").split(" | ")]
        if len(c) == 4:
            old[c[0]] = tuple(c)
old.update({r[0]: r for r in rows})
with open(f"{V}/seeded/RESULTS.md", "w") as f:
    f.write("| seeded change | property | quick check | violated labels |\n|---|---|---|---|\n")
    for k in sorted(old):
        f.write("| " + " | ".join(old[k]) + " |\n")
print("done")
