#!/bin/sh
# usage: mkmut.sh C13 a   -> creates scratch worktree /tmp/mut-C13-a with PROPERTY.json (property text only)
set -e
id=$1; tag=$2; d=/tmp/mut-$id-$tag
git -C /repo worktree add -q --detach "$d" HEAD
python3 - "$id" "$d" <<'PY'
import json,sys
for l in open('/verif/properties.jsonl'):
    p=json.loads(l)
    if p['id']==sys.argv[1]:
        json.dump(p,open(sys.argv[2]+'/PROPERTY.json','w'),indent=1)
PY
mkdir -p "$d/OUT"
echo "$d"
