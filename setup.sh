#!/bin/sh
# Offline: overlay venv on top of /venv (which has pdb2pqr editable-installed from /repo) + crosshair/z3 from the wheelhouse.
set -e
HERE=$(cd "$(dirname "$0")" && pwd)
V="$HERE/.venv"
if [ ! -x "$V/bin/python" ]; then
    /venv/bin/python -m venv "$V"
fi
SP=$("$V/bin/python" -c "import sysconfig; print(sysconfig.get_paths()['purelib'])")
printf "import site; site.addsitedir('/venv/lib/python3.12/site-packages')\n" > "$SP/_overlay.pth"
if ! "$V/bin/python" -c "import z3" 2>/dev/null; then
    PIP_NO_INDEX=1 "$V/bin/pip" install -q --no-index --find-links /opt/veriftools/wheels z3-solver
fi
"$V/bin/python" -c "import z3, pdb2pqr; print('setup ok: z3', z3.get_version_string(), 'pdb2pqr from', pdb2pqr.__file__)"
